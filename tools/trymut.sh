#!/bin/bash
# usage: trymut.sh <file> <python-regex-old> <new> -- <check args...>   (applies in /repo, runs ./check, reverts)
f=$1; old=$2; new=$3; shift 4
cd /repo && git diff --quiet || { echo "repo dirty"; exit 9; }
/venv/bin/python - "$f" "$old" "$new" <<'PY'
import sys,re
f,old,new=sys.argv[1:4]
s=open('/repo/'+f).read()
s2,n=re.subn(old,new,s,count=1)
assert n==1,'pattern not found'
open('/repo/'+f,'w').write(s2)
PY
[ $? -eq 0 ] || exit 9
git -C /repo diff --stat | tail -1
cd /verif && ./check "$@" | tail -8; echo "rc=${PIPESTATUS[0]}"
git -C /repo checkout -- .
