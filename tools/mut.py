#!/venv/bin/python
"""Self-test helper: apply one hand-written mutant to /repo, run a check, undo.  usage: mut.py NAME [check args]"""
import subprocess, sys
M = {
 'c06-showall': ('frontends/tui/controller.py', "            if self.display_matcher.matches(message):\n                self._show_message(message)", "            if True:\n                self._show_message(message)"),
 'c06-nested': ('frontends/tui/controller.py', "            if self.display_matcher.matches(message):\n                self._show_message(message)\n            if self.stop_matcher.matches(message):", "            if self.stop_matcher.matches(message) and self.display_matcher.matches(message):\n                self._show_message(message)\n            if self.stop_matcher.matches(message):"),
 'c06-ignore-sel': ('frontends/tui/controller.py', "if self.current_connection is None or connection == self.current_connection:", "if True:"),
 'c11-firstn': ('frontends/tui/controller.py', "for message in reversed(messages):", "for message in messages:"),
 'c11-counts': ('frontends/tui/controller.py', "len(messages) - len(acc) - didnt_match)", "len(messages) - len(acc))"),
 'c11-join': ('frontends/tui/controller.py', "            m = self.parse_and_join(arg, None)", "            m = self.parse_and_join(arg, self.display_matcher)"),
 'c12-dropneg': ('core/matcher.py', "    new_list.negative += old_list.negative\n", ""),
 'c12-replace': ('core/matcher.py', "    if isinstance(old, AlwaysMatcher) or isinstance(new, AlwaysMatcher):\n        return new", "    if True:\n        return new"),
 'c12-errreset': ('frontends/tui/controller.py', "            return old if old is not None else matcher.never", "            return matcher.never"),
 'c04-noknown': ('backends/libwayland_debug_output/parse.py', "            self.known_connections.add(conn_id)\n", ""),
 'c04-sharedb': ('core/connection_impl.py', "        self.db = {1: [self.display]}", "        self.db = ConnectionImpl._shared = getattr(ConnectionImpl, '_shared', {1: [self.display]})"),
 'c04-noclose': ('backends/libwayland_debug_output/parse.py', "        for conn_id in self.known_connections:\n            self.sink.close_connection(self.last_time, conn_id)", "        pass"),
 'c16-list-reset': ('frontends/tui/controller.py', "            self.last_shown_timestamp = None\n            for message in matching:", "            for message in matching:"),
 'c16-ge': ('frontends/tui/controller.py', "if delta > 1.0:", "if delta >= 1.0:"),
 'c16-neighbours': ('frontends/tui/controller.py', "        self.all_messages.append(message)\n", "        self.all_messages.append(message)\n        prev_ts = self.all_messages[-2].timestamp if len(self.all_messages) > 1 else None\n        if prev_ts is not None and self.last_shown_timestamp is not None: self.last_shown_timestamp = prev_ts\n"),
 'c08-nostrip': ('backends/libwayland_debug_output/parse.py', "            line = line.strip() # be sure to strip after the empty check", "            line = line.rstrip('\\n')"),
 'c08-supress-inv': ('core/output/output.py', "        if self.show_unprocessed:", "        if not self.show_unprocessed:"),
 'c08-batch': ('core/output/stream.py', "        self.override_write(str(thing))", "        self._q = getattr(self, '_q', []) + [str(thing)]\n        if len(self._q) >= 2:\n            for x in self._q: self.override_write(x)\n            self._q = []"),
 'c03-noalive': ('core/wl/object.py', "        self.destroy_time = time\n        self.alive = False", "        self.destroy_time = time"),
 'c03-first': ('core/wl/message.py', "self.destroyed_obj = conn.retrieve_object(first_arg.value, -1, None)", "self.destroyed_obj = conn.retrieve_object(first_arg.value, 0, None)"),
 'c03-anydelete': ('core/wl/message.py', "if self.obj == conn.wl_display() and self.name == 'delete_id'", "if self.name == 'delete_id'"),
 'c02-argsfirst': ('core/wl/message.py', "        for i, arg in enumerate(self.args):\n            arg.resolve(conn, self, i)", "        pass"),
 'c07-offbyone': ('core/wl/protocol.py', "    arg = arg_list[arg_index]", "    arg = arg_list[min(arg_index + 1, len(arg_list) - 1)]"),
 'c07-eq': ('core/wl/protocol.py', "            if entry.value & arg_value:", "            if entry.value == arg_value:"),
 'c07-version': ('core/wl/protocol.py', "existing.version < interface.version", "existing.version > interface.version"),
}
name = sys.argv[1]
f, old, new = M[name]
assert subprocess.run(['git', '-C', '/repo', 'diff', '--quiet']).returncode == 0, 'repo dirty'
s = open('/repo/' + f).read()
assert s.count(old) == 1, 'pattern count %d' % s.count(old)
open('/repo/' + f, 'w').write(s.replace(old, new))
try:
    if len(sys.argv) > 2 and sys.argv[2] == 'pytest':
        r = subprocess.run('cd /repo && /venv/bin/python -m pytest -q -x -p no:cacheprovider 2>&1 | tail -3', shell=True)
    else:
        r = subprocess.run(['./check'] + sys.argv[2:], cwd='/verif', stdout=subprocess.PIPE, stderr=subprocess.STDOUT)
        out = r.stdout.decode()
        lines = [l for l in out.split('\n') if l.strip()]
        print('\n'.join(l[:260] for l in lines[-5:]))
        print('rc=%d' % r.returncode)
finally:
    subprocess.run(['git', '-C', '/repo', 'checkout', '--', '.'])
