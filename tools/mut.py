#!/venv/bin/python
"""Self-test helper: apply one hand-written mutant to /repo, run a check, undo.  usage: mut.py NAME [check args]"""
import subprocess, sys
M = {
 'c06-showall': ('frontends/tui/controller.py', "            if self.display_matcher.matches(message):\n                self._show_message(message)", "            if True:\n                self._show_message(message)"),
 'c06-nested': ('frontends/tui/controller.py', "            if self.display_matcher.matches(message):\n                self._show_message(message)\n            if self.stop_matcher.matches(message):", "            if self.stop_matcher.matches(message) and self.display_matcher.matches(message):\n                self._show_message(message)\n            if self.stop_matcher.matches(message):"),
 'c06-ignore-sel': ('frontends/tui/controller.py', "if self.current_connection is None or connection == self.current_connection:", "if True:"),
 'c11-firstn': ('frontends/tui/controller.py', "for message in reversed(messages):", "for message in messages:"),
 'c11-counts': ('frontends/tui/controller.py', "len(messages) - len(acc) - didnt_match)", "len(messages) - len(acc))"),
 'c11-join': ('frontends/tui/controller.py', "            m = self.parse_and_join(arg, None)", "            m = self.parse_and_join(arg, self.display_matcher)"),
 'c12-dropneg': ('core/matcher.py', "    new_list.negative += old_list.negative\n", ""),
 'c12-replace': ('core/matcher.py', "    if isinstance(old, AlwaysMatcher) or isinstance(new, AlwaysMatcher):\n        return new", "    if True:\n        return new"),
 'c12-errreset': ('frontends/tui/controller.py', "            return old if old is not None else matcher.never", "            return matcher.never"),
 'c04-noknown': ('backends/libwayland_debug_output/parse.py', "            self.known_connections.add(conn_id)\n", ""),
 'c04-sharedb': ('core/connection_impl.py', "        self.db = {1: [self.display]}", "        self.db = ConnectionImpl._shared = getattr(ConnectionImpl, '_shared', {1: [self.display]})"),
 'c04-noclose': ('backends/libwayland_debug_output/parse.py', "        for conn_id in self.known_connections:\n            self.sink.close_connection(self.last_time, conn_id)", "        pass"),
 'c16-list-reset': ('frontends/tui/controller.py', "            self.last_shown_timestamp = None\n            for message in matching:", "            for message in matching:"),
 'c16-ge': ('frontends/tui/controller.py', "if delta > 1.0:", "if delta >= 1.0:"),
 'c16-neighbours': ('frontends/tui/controller.py', "        self.all_messages.append(message)\n", "        self.all_messages.append(message)\n        prev_ts = self.all_messages[-2].timestamp if len(self.all_messages) > 1 else None\n        if prev_ts is not None and self.last_shown_timestamp is not None: self.last_shown_timestamp = prev_ts\n"),
 'c08-nostrip': ('backends/libwayland_debug_output/parse.py', "            line = line.strip() # be sure to strip after the empty check", "            line = line.rstrip('\\n')"),
 'c08-supress-inv': ('core/output/output.py', "        if self.show_unprocessed:", "        if not self.show_unprocessed:"),
 'c08-batch': ('core/output/stream.py', "        self.override_write(str(thing))", "        self._q = getattr(self, '_q', []) + [str(thing)]\n        if len(self._q) >= 2:\n            for x in self._q: self.override_write(x)\n            self._q = []"),
 'c03-noalive': ('core/wl/object.py', "        self.destroy_time = time\n        self.alive = False", "        self.destroy_time = time"),
 'c03-first': ('core/wl/message.py', "self.destroyed_obj = conn.retrieve_object(first_arg.value, -1, None)", "self.destroyed_obj = conn.retrieve_object(first_arg.value, 0, None)"),
 'c03-anydelete': ('core/wl/message.py', "if self.obj == conn.wl_display() and self.name == 'delete_id'", "if self.name == 'delete_id'"),
 'c02-argsfirst': ('core/wl/message.py', "        for i, arg in enumerate(self.args):\n            arg.resolve(conn, self, i)", "        pass"),
 'c07-offbyone': ('core/wl/protocol.py', "    arg = arg_list[arg_index]", "    arg = arg_list[min(arg_index + 1, len(arg_list) - 1)]"),
 'c07-eq': ('core/wl/protocol.py', "            if entry.value & arg_value:", "            if entry.value == arg_value:"),
 'c07-version': ('core/wl/protocol.py', "existing.version < interface.version", "existing.version > interface.version"),

 'c10-noclear': ('backends/gdb_plugin/plugin.py', "        if self.state.paused():\n            self.state.resume_requested()\n", ""),
 'c10-stopconst': ('backends/gdb_plugin/plugin.py', "        return self.plugin.paused()", "        return False"),
 'c10-break-ignores-sel': ('frontends/tui/controller.py', "            if self.stop_matcher.matches(message):\n                self.out.show(color(alert_color, '    Stopped at ') + str(message).strip())\n                self.ui_state_listener.pause_requested()", "            pass\n        if self.stop_matcher.matches(message):\n            self.out.show(color(alert_color, '    Stopped at ') + str(message).strip())\n            self.ui_state_listener.pause_requested()"),
 'c10-quit-continues': ('backends/gdb_plugin/plugin.py', "        if self.state.should_quit():\n            gdb.execute('quit')\n        elif not self.state.paused():", "        if not self.state.paused():"),
 'c10-prompt': ('frontends/tui/terminal_ui.py', "while self.state.paused() and not self.state.should_quit():", "while self.state.paused():"),
 'c15-noreopen': ('backends/gdb_plugin/plugin.py', "        self.connections.pop(connection_id, None)\n", ""),
 'c15-thread-raises': ('backends/gdb_plugin/plugin.py', "                self.out.warn(", "                raise RuntimeError("),
 'c09-uint': ('backends/gdb_plugin/extract.py', "            value = closure_args[i][c]\n", "            value = closure_args[i]['i' if c == 'u' else c]\n"),
 'c09-fixed': ('backends/gdb_plugin/extract.py', "- (3LL << 43)'))", "- (3LL << 43)')) * 2"),
 'c09-skip': ('backends/gdb_plugin/extract.py', "type_codes = {i: True for i in ['i', 'u', 'f', 's', 'o', 'n', 'a', 'h']}", "type_codes = {i: True for i in ['i', 'u', 'f', 's', 'o', 'n', 'a', 'h', '?']}"),
 'c09-newid-client': ('backends/gdb_plugin/extract.py', "                if new_id_is_actually_an_object:", "                if False:"),
 'c13-env': ('backends/libwayland_debug_output/runner.py', "        env['WAYLAND_DEBUG'] = '1'\n", ""),
 'c13-status': ('backends/libwayland_debug_output/runner.py', "    return subprocess.returncode", "    return 0 if subprocess.returncode == 0 else 1"),
 'c13-argv': ('backends/libwayland_debug_output/runner.py', "            self.args.command_args,\n", "            [a for a in self.args.command_args if a != '-C'],\n"),
 'c13-lastline': ('backends/libwayland_debug_output/parse.py', "            if line == '':\n                break", "            if line == '' or not line.endswith('\\n'):\n                break"),
 'c19-second': ('frontends/tui/arguments.py', "                if args[i] == alias:\n                    return (args[:i], command_id, args[i+1:])", "                if args[i] == alias:\n                    return (args[:i], command_id, [a for a in args[i+1:] if a != '--'])"),
 'c19-usage': ('frontends/tui/arguments.py', "    elif len(modes) > 1:", "    elif len(modes) > 2:"),
 'c19-badf': ('frontends/tui/arguments.py', "            raise RuntimeError('invalid filter matcher: ' + str(e))", "            filter_matcher = matcher.always"),
 'c14-letters': ('core/letter_id_generator.py', "        result = (result + 1) * 26", "        result = (result + 1) * 26 if len(text) < 3 else (result + 1) * 26 + (1 if result > 700 else 0)"),
 'c14-genmatch': ('core/matcher.py', "        generation = obj.generation if obj.generation is not None else 0\n        return self.wrapped.matches((obj.id, generation))", "        generation = obj.generation if obj.generation is not None else 0\n        return self.wrapped.matches((obj.id, min(generation, 25)))"),
 'c05-neg': ('core/matcher.py', "        if result:\n            for matcher in self.negative:\n                for arg in message:", "        if False:\n            for matcher in self.negative:\n                for arg in message:"),
 'c05-wild': ('core/matcher.py', "        re_pattern = r'^' + re.escape(pattern).replace(r'\\*', '.*') + r'$'", "        re_pattern = r'^' + re.escape(pattern).replace(r'\\*', '.*')"),
 'c05-new': ('core/matcher.py', "                if isinstance(arg, wl.Arg.Object) and arg.is_new and self.obj_matcher.matches(arg.obj):", "                if isinstance(arg, wl.Arg.Object) and self.obj_matcher.matches(arg.obj):"),
 'c01-negint': ('backends/libwayland_debug_output/parse.py', "        int_re = r'(?P<int>-?\\d+)'", "        int_re = r'(?P<int>\\d+)'"),
 'c01-conn': ('backends/libwayland_debug_output/parse.py', "        conn_re = r'( \\<(?P<conn>\\w+)\\>)?'", "        conn_re = r'( \\<(?P<conn>\\d)\\>)?'"),
 'c17-literal': ('core/wl/arg.py', "            return color(fd_color, 'fd ' + str(self.value))", "            return '\\x1b[35mfd ' + str(self.value) + '\\x1b[0m'"),
  # (equivalent since the fix of process_command, which strips colour from the whole line first)
 'c17-strip': ('frontends/tui/controller.py', "        second = '' if len(args) < 2 else no_color(args[1]).strip()", "        second = '' if len(args) < 2 else args[1].strip()"),
 'c17-space': ('core/util.py', "        if color is not None:\n            result += '\\x1b[' + color + 'm'", "        if color is not None:\n            result += ' \\x1b[' + color + 'm'"),
 'c17-matcherstrip': ('core/matcher.py', "    text = no_color(text).strip()\n    if text == '':", "    text = text.strip()\n    if text == '':"),
 'c18-assert': ('core/wl/object.py', "        assert obj_id > 0\n        self.connection", "        if obj_id <= 0: raise ValueError(obj_id)\n        self.connection"),
 'c18-cmd': ('frontends/tui/controller.py', "                self.out.error('Expected number after \\'~\\', got \\'' + tilde_split[1] + '\\'')\n                return", "                raise"),
 'c18-eofclose': ('backends/libwayland_debug_output/parse.py', "    def cleanup(self):\n        for conn_id in self.known_connections:", "    def cleanup(self):\n        for conn_id in sorted(self.known_connections)[1:]:"),
 'c18-matcher': ('core/matcher.py', "        except ValueError:\n            raise RuntimeError(text + ' is not a valid int')", "        except ValueError:\n            raise"),
 'c04-title-first': ('core/connection_impl.py', "self._set_title(app_id.rsplit('.', 1)[-1])", "self._set_title(app_id.split('.', 1)[0])"),
 'c04-title-overwrite': ('core/connection_impl.py', "elif message.name == 'set_title' and not self.title:", "elif message.name == 'set_title':"),
 'c04-appid-case': ('frontends/tui/controller.py', "            if app_id is not None and name == app_id.lower():", "            if app_id is not None and name == app_id:"),
 'c04-conn-count': ('frontends/tui/controller.py', "line += color(int_color, str(len(connection.messages()))) + ' messages'", "line += color(int_color, str(len(self.all_messages))) + ' messages'"),
 'c15-connid': ('backends/gdb_plugin/extract.py', "    return 'gdb_conn:' + hex(int(connection))", "    return 'gdb_conn:' + hex(int(connection) & 0xffffff00)"),
 'c15-serverconn': ('backends/gdb_plugin/extract.py', "        new_id_is_actually_an_object = False\n        resource_type = lazy_get_wl_resource_ptr_type()", "        new_id_is_actually_an_object = True\n        resource_type = lazy_get_wl_resource_ptr_type()"),
}
name = sys.argv[1]
f, old, new = M[name]
assert subprocess.run(['git', '-C', '/repo', 'diff', '--quiet']).returncode == 0, 'repo dirty'
s = open('/repo/' + f).read()
assert s.count(old) == 1, 'pattern count %d' % s.count(old)
open('/repo/' + f, 'w').write(s.replace(old, new))
try:
    if len(sys.argv) > 2 and sys.argv[2] == 'pytest':
        r = subprocess.run('cd /repo && /venv/bin/python -m pytest -q -x -p no:cacheprovider 2>&1 | tail -3', shell=True)
    else:
        r = subprocess.run(['./check'] + sys.argv[2:], cwd='/verif', stdout=subprocess.PIPE, stderr=subprocess.STDOUT)
        out = r.stdout.decode()
        lines = [l for l in out.split('\n') if l.strip()]
        print('\n'.join(l[:260] for l in lines[-5:]))
        print('rc=%d' % r.returncode)
finally:
    subprocess.run(['git', '-C', '/repo', 'checkout', '--', '.'])
