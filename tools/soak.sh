#!/bin/bash
# soak: run the given checks with several seeds; print one line per run (used under `vp run`)
props="$1"; seeds="$2"; tier="${3:-quick}"
for s in $seeds; do for p in $props; do
  out=$(VERIF_SEED=$s ./check $p --tier $tier 2>&1); rc=$?
  echo "seed=$s $p rc=$rc $(echo "$out" | tail -1 | cut -c1-200)"
  if [ $rc -ne 0 ]; then echo "$out" | grep -E 'VIOLATION|what:|MACHINERY' | cut -c1-600 | head -6; fi
done; done
