#!/usr/bin/env python3
"""Regenerate MANIFEST.json from the table below (keeps it valid at all times)."""
import json, os
HERE = os.path.dirname(os.path.dirname(os.path.abspath(__file__)))
ids = [json.loads(l)['id'] for l in open(os.path.join(HERE, 'properties.jsonl'))]
BASE_NOTE = ('Trusted: TLC / SANY, the JSON bridge, harness projection + lexer + printer model (transcribed from libwayland 1.23.1 and the '
             'pre-1.22 format of the shipped logs). Bounded: TLC is exhaustive only for the constants of the MC_*.cfg files; beyond them '
             'coverage is by seeded generation, each recorded execution validated by TLC against the specification.')
C = {
 'C01': ('model_checking', 'TLA+ ArgSplit automaton (TLC round trip + exhaustive differential table vs the real splitter) and TLC-enumerated WlLine universe rendered by a printer model and decoded by the real parse.message',
         'The splitter is transcribed as a TLA+ automaton; TLC proves Split(Join(args)) = args over all bounded argument lists and validates the transcription against the real function on every class string up to length 7/9. TLC enumerates dialect x decimal mark x queue x connection tag x direction x argument-class sequences; each is rendered with boundary values and samples and every decoded field compared; non-message lines (all classes, proper prefixes) must be rejected. Integer / fixed / text ranges are covered by classes and samples, not exhaustively.', '4 C01'),
 'C02': ('model_checking', 'TLA+ Session/ObjectTable spec: TLC invariants over all bounded well-formed histories + replay of model behaviours into the real tool + TLC trace validation of random histories',
         'TLC proves the attribution invariants on every well-formed history of the bounded model (ids {2,3[,4]} + a server-range id, <= 3 incarnations, <= 6/7 messages); every maximal behaviour of that model (sampled in quick) and hundreds of long random histories (all shipped interfaces, > 26 incarnations) are executed by the real tool and each recorded step is compared by TLC with Session!Step (target / argument / destroyed incarnation, labels on the output line, the table read through retrieve_object).', '4 C02'),
 'C03': ('model_checking', 'TLA+ ObjectTable lifetimes: TLC invariants/action properties with clocks + replay + TLC trace validation',
         'As C02 with clocks: AtMostOneAlive, OnlyLatestAlive, NoResurrection, destruction annotation only on the display\'s delete_id, lifespan = destroy - create; alive flags, times, annotation and displayed lifespan of the real tool compared by TLC at every step.', '4 C03'),
 'C04': ('model_checking', 'TLA+ Session connections: TLC over all interleavings of two connections + replay + trace validation incl. the connection-id interface',
         'TLC checks isolation, solo-equivalence, naming order, announce-once, closed-once over all interleavings (<= 6 events) of two connections using the same ids; interleavings, random multi-connection logs and random open/message/close sequences on ConnectionManager are executed and validated step by step.', '4 C04'),
 'C05': ('model_checking', 'TLA+ Matcher!Sem: TLC checks the laws of the statement on the semantics, enumerates pattern x message selection tables for the real matcher, and validates real evaluations of generated trees on recorded sessions',
         'Matcher.tla is the formalised documentation. TLC (P1) checks the listed laws for every pattern over the component pools; (P4) prints the selection of each of 5.7k patterns on a fixed 20-message session which the real parse().simplify().matches() must reproduce in up to 13 spellings; (P3) generated trees of depth 1-3 are evaluated by the real tool on random sessions and by TLC on its own resolution of those sessions.', '4 C05'),
 'C06': ('model_checking', 'TLA+ Session/Controller + Matcher semantics: TLC over filter/selection changes at every point + replay + trace validation',
         'The specification decides, with its own matcher semantics, which lines must appear; TLC explores all placements of filter and selection commands in bounded histories, and validates the real tool\'s output per input line on those and on random sessions.', '4 C06'),
 'C07': ('model_checking', 'TLA+ Protocol.tla: TLC over all load orders + function table of every lookup evaluated by TLC on independently extracted descriptions + session traces over all shipped interfaces',
         'Version precedence is model-checked for all 720 load orders and the same synthetic files are loaded by the real protocol.load in those orders; every interface x message x argument position and every enum question (entries, unions, 0, outside) is asked of the real lookups and TLC compares each answer with Protocol.tla evaluated on descriptions extracted by separate code; output tokens are validated on sessions over all shipped interfaces.', '4 C07'),
 'C08': ('model_checking', 'TLA+ Session line pipeline: TLC over line streams with EOF at every point, both --supress settings + replay with the input file object as observation point',
         'One item per line, order, passthrough text, --supress, and output-before-next-read are checked by TLC on the model and, on the real tool, by collecting what was written at each readline() call and validating the per-line items; truncation at random byte positions included.', '4 C08'),
 'C09': ('model_checking', 'TLA+ Closure!Extract / Printed: TLC laws over all signatures + the real plugin in the real gdb on a mock libwayland and the real log decoder, both compared by TLC with the specification',
         'Closure.tla defines what must be reported for a closure and what the print-out retains; TLC checks one-argument-per-code / order / agreement for every signature of <= 2/3 tokens with ? markers and version prefixes; thousands of concrete closures (every value class, five call paths, up to 20 arguments) are decoded by the real plugin inside gdb 13 from harness/mockwl.c and by the real log decoder from the printer model\'s line, and TLC compares both with the specification field by field.', '4 C09'),
 'C10': ('model_checking', 'TLA+ GdbSession: TLC over all event/command sequences + replay through the real Plugin against a stand-in gdb module + TLC trace validation; TerminalUI prompt loop driven with scripts',
         'HaltIff and CommandOutcome are checked by TLC on GdbSession over all sequences (<= 5) of hits on two addresses from two threads, destructions and 11 commands; model behaviours and random sequences are executed by the real backends/gdb_plugin/plugin.py (E3-lite) and stop()\'s return value, the executed gdb command, notices and matcher state validated by TLC; the prompt loop of file/run mode is counted on scripted input.', '4 C10'),
 'C11': ('model_checking', 'TLA+ Session!ListResult: TLC over list queries at every point + replay + trace validation',
         'Listed messages (identity, order), last-N, the three counts and read-only-ness are defined in TLA+ and compared by TLC with what the real `list` prints, over model behaviours and random sessions dense in queries.', '4 C11'),
 'C12': ('model_checking', 'TLA+ Matcher!Refine accumulation: TLC explores command chains over an atom pool + replay + extensional comparison by TLC',
         'After every filter/breakpoint command the real matcher is evaluated on every recorded message; TLC compares that selection with Refine/SelLo/SelHi. Exhaustive for chains of <= 5 events over 11 commands, sampled for random chains of up to 12 commands.', '4 C12'),
 'C13': ('model_checking', 'TLA+ RunMode (child / helper thread / reader / main): TLC over all chunkings and interleavings with fairness + real subprocess runs in file, pipe and run mode validated by TLC and compared with the in-process run',
         'TLC checks Delivered / AllBeforeStatus / StatusPropagated / Terminates on RunMode for every chunking and interleaving of four small streams; real main.py processes are run in the three modes for generated streams under several chunkings, delays, exit timings, statuses and argv with option look-alikes; displays must be identical across modes and equal to the line-by-line run, argv / WAYLAND_DEBUG / stdout / status checked, processed lines and status validated by TLC (TraceRunMode). The reader side of the real interleaving is the kernel\'s.', '4 C13'),
 'C14': ('model_checking', 'TLA+ LetterId: TLC invariants (shortlex increasing, no gaps, round trip) + table of the real letter functions validated by TLC + labels typed back as list matchers in session traces',
         'LetterId.tla defines the labels; TLC proves injectivity/no-gaps/round-trip through three letters, validates the tool\'s two functions entry by entry (through four letters in thorough, samples to 2^31), and validates sessions in which labels known from the generator\'s bookkeeping are used as `list` matchers (objects with > 26 incarnations, > 26 and > 702 connections).', '4 C14'),
 'C15': ('model_checking', 'TLA+ GdbSession connections: TLC over hits / destructions (known, closed, never seen) / address reuse / threads + replay through the real Plugin + TLC trace validation',
         'TLC checks that the address map equals the open connections, reuse of an address yields a fresh connection, destruction closes exactly that connection and every event is tolerated without disturbing others; the same sequences and random ones dense in destructions are executed by the real Plugin (E3-lite) and validated step by step, an exception escaping stop() being an observation of its own.', '4 C15'),
 'C16': ('model_checking', 'TLA+ Session times/separators: TLC over gaps around one second with hidden messages + four concretisations per behaviour + trace validation',
         'The separator rule and relative times are checked by TLC on the model; each behaviour is rendered with four time shifts / decimal marks / dialects and the displayed times and separators validated by TLC.', '4 C16'),
}
checks = []
for i in ids:
    if i in C:
        cat, tech, text, ref = C[i]
        checks.append({'property_id': i, 'quick_cmd': './check %s' % i, 'thorough_cmd': './check %s --tier thorough' % i,
                       'evidence_file': '/verif/evidence/%s.json' % i, 'replay_cmd_template': './check %s --replay {path}' % i,
                       'engine': 'tlc', 'level_claimed': {'category': cat, 'text': text, 'design_ref': 'DESIGN.md section ' + ref},
                       'level_note': BASE_NOTE, 'technique': tech})
m = {'version': 1, 'setup_cmd': './setup.sh',
     'hooks': {'guard': 'WAYLAND_DEBUG_VERIF', 'enable': 'no source hooks are used: the harness drives the unmodified code through its public interfaces (DESIGN.md section 0)',
               'baseline_off_cmd': 'cd /repo && /venv/bin/python -m pytest -ra -q -p no:cacheprovider --timeout=900 --continue-on-collection-errors',
               'source_commits': [], 'add_only': True},
     'engines': [{'name': 'tlc', 'path': '/verif/spec', 'serves_properties': sorted(C), 'kind_free_text': 'TLA+ specification (spec/*.tla) checked by TLC 1.8: bounded model checking (MC_*.cfg), trace validation of recorded executions (Trace*.tla), function tables'}],
     'checks': checks,
     'not_applicable': [{'property_id': i, 'reason': 'check not built yet (work in progress; see DESIGN.md section 8)'} for i in ids if i not in C],
     'notes': 'All checks: cwd /verif, ./check <ID> [--tier thorough]; exit 2 = machinery failure (no verdict).'}
json.dump(m, open(os.path.join(HERE, 'MANIFEST.json'), 'w'), indent=1)
print(len(checks), 'checks')
