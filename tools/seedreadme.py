#!/venv/bin/python
"""Regenerates the table of /verif/seeded/README.md from the meta.json files and seeded/notes.json (name -> note)."""
import json, os, re
V = os.path.dirname(os.path.dirname(os.path.abspath(__file__)))
S = os.path.join(V, 'seeded')
readme = open(os.path.join(S, 'README.md')).read()
head, _, table = readme.partition('| change |')
notes_p = os.path.join(S, 'notes.json')
notes = json.load(open(notes_p)) if os.path.exists(notes_p) else {}
for line in table.split('\n'):
    c = [x.strip() for x in line.split('|')]
    if len(c) >= 8 and re.fullmatch(r'C\d\d-\w', c[1]) and c[1] not in notes:
        notes[c[1]] = c[6]
rows = ['| change | breaks | what it does | needs | caught by | note |', '|---|---|---|---|---|---|']
for d in sorted(os.listdir(S)):
    mp = os.path.join(S, d, 'meta.json')
    if not os.path.exists(mp):
        continue
    m = json.load(open(mp))
    esc = lambda s: str(s).replace('|', '\\|').replace('\n', ' ')
    notes.setdefault(d, 'caught as built')
    rows.append('| %s | %s | %s | %s | %s | %s |' % (d, m['property'], esc(m['summary'])[:300], esc(m['needs'])[:300],
                                                    ', '.join(m.get('detected_by', [])) or 'NOT CAUGHT', esc(notes[d])))
json.dump(notes, open(notes_p, 'w'), indent=1, sort_keys=True)
open(os.path.join(S, 'README.md'), 'w').write(head + '\n'.join(rows) + '\n')
print(len(rows) - 2, 'changes')
