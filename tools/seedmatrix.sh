#!/bin/bash
# every seeded change against its property's check for several VERIF_SEED values (robustness of detection)
seeds="${1:-1 2 3}"
for d in seeded/C*/; do n=$(basename $d); p=${n%%-*}
  for s in $seeds; do
    out=$(SEED_NO_RECORD=1 VERIF_SEED=$s tools/seed.py run $n $p 2>&1 | tail -1 | cut -c1-120)
    echo "seed=$s $n: $out"
  done
done
