#!/venv/bin/python
"""Wrong designs the properties must reject (a test of the specification's properties, not of the tool).

Each entry replaces one piece of a specification module by a plausible wrong design, runs TLC on a copy of /verif/spec with the
listed configuration and expects the named invariant / property to be reported violated.  A property that accepts the wrong
design says nothing; such an entry prints MISSED.  Usage: tools/specmut.py [name ...]
"""
import os, re, shutil, subprocess, sys, tempfile
V = os.path.dirname(os.path.dirname(os.path.abspath(__file__)))
SPEC = os.path.join(V, 'spec')

M = {
    # C03: a server-range id handed out again leaves the previous holder alive
    'reuse-keeps-alive': ('ObjectTable.tla', 'THEN LET d1 == IF Latest(d, i).alive THEN Kill(d, i, t) ELSE d',
                          'THEN LET d1 == d', 'MC_Session.tla', 'MC_Session_tables.cfg', ['InvTables']),
    # C03: delete_id forgets the time of destruction
    'kill-without-time': ('ObjectTable.tla', '[@ EXCEPT !.alive = FALSE, !.dt = t]', '[@ EXCEPT !.alive = FALSE]',
                          'MC_Session.tla', 'MC_Session_life.cfg', ['InvTables', 'InvLife', 'InvDestroyed']),
    # C03: delete_id does not end the object's life
    'delete-is-noop': ('ObjectTable.tla', 'd1    == IF isDel THEN Kill(d, did, t) ELSE d', 'd1    == d',
                       'MC_Session.tla', 'MC_Session_tables.cfg', ['PropLifeEnds']),
    # C13: the tool closes its own write end right after the spawn, and main gives up waiting for the helper thread (a join with a
    # time limit): each half alone is harmless in this model, together the status may be returned before it is known
    'runmode-early-close-no-join': ('RunMode.tla', [
        ('WaiterClose  == /\\ waiter = "stored" /\\ toolEnd\' = FALSE /\\ waiter\' = "closed"',
         'WaiterClose  == /\\ waiter \\in {"waiting", "stored"} /\\ toolEnd /\\ toolEnd\' = FALSE /\\ waiter\' = (IF waiter = "stored" THEN "closed" ELSE waiter)'),
        ('MainJoin   == /\\ readerDone /\\ ~joined /\\ waiter = "closed" /\\ joined\' = TRUE',
         'MainJoin   == /\\ readerDone /\\ ~joined /\\ joined\' = TRUE')],
        None, 'MC_RunMode.tla', 'MC_RunMode_A.cfg', ['StatusPropagated', 'NeverInitial', 'AllBeforeStatus']),
    # C13: end of file taken as soon as the pipe is empty
    'runmode-eof-on-empty': ('RunMode.tla', 'ReaderEof  == /\\ ~readerDone /\\ pipe = <<>> /\\ ~childEnd /\\ ~toolEnd',
                             'ReaderEof  == /\\ ~readerDone /\\ pipe = <<>>',
                             'MC_RunMode.tla', 'MC_RunMode_A.cfg', ['Delivered', 'AllBeforeStatus']),
    # C10: the program halts when the *filter* selects the message
    'halt-on-filter': ('Session.tla', 'blo  == BreakLo(S2, k, r.rec)', 'blo  == SelectedLo(S2, k, r.rec)',
                       'MC_Gdb.tla', 'MC_Gdb.cfg', ['PropGStep']),
    # C06: only shown messages are recorded
    'record-only-shown': ('Session.tla', '!.hist = Append(@, r.rec), !.hconn = Append(@, k), !.hdy = Append(@, dy)]',
                          '!.hist = IF SelLo(S1.filter, r.rec) THEN Append(@, r.rec) ELSE @, !.hconn = IF SelLo(S1.filter, r.rec) THEN Append(@, k) ELSE @, !.hdy = IF SelLo(S1.filter, r.rec) THEN Append(@, dy) ELSE @]',
                          'MC_Session.tla', 'MC_Session_live.cfg', None),
    # C16: a separator already at a gap of exactly one second
    'sep-at-one-second': ('Session.tla', 'ELSE IF gap > SECOND THEN <<ItSep(gap, may)>>', 'ELSE IF gap >= SECOND THEN <<ItSep(gap, may)>>',
                          'MC_Session.tla', 'MC_Session_time.cfg', ['PropSeparator']),
    # C08: --supress does not suppress
    'supress-ignored': ('Session.tla', 'out |-> IF S.show THEN <<ItJunk(ev.text)>> ELSE <<>>, oc |-> "junk"]', 'out |-> <<ItJunk(ev.text)>>, oc |-> "junk"]',
                        'MC_Session.tla', 'MC_Session_lines_sup.cfg', ['PropOneItemPerLine']),
    # C15: a destroyed connection stays in the table of live addresses (the next one at that address is taken for it)
    'destroy-keeps-address': ('GdbSession.tla', '[G EXCEPT !.S = c.S, !.pmap = Without(G.pmap, ev.addr)]', '[G EXCEPT !.S = c.S]',
                              'MC_Gdb.tla', 'MC_Gdb.cfg', ['InvGState', 'PropGStep']),
    # C15: the destruction of a known connection does not close it
    'destroy-does-not-close': ('GdbSession.tla', 'IN [G |-> [G EXCEPT !.S = c.S, !.pmap = Without(G.pmap, ev.addr)], out |-> c.out,',
                               'IN [G |-> [G EXCEPT !.pmap = Without(G.pmap, ev.addr)], out |-> <<>>,',
                               'MC_Gdb.tla', 'MC_Gdb.cfg', ['InvGState', 'PropGStep']),
    # C04: a connection opened again keeps the old one's name (ordinal)
    'reopen-keeps-name': ('Session.tla', 'nc == NewConn(ev.tag, Len(S.conns), ev.role)',
                          'nc == NewConn(ev.tag, IF \\E k \\in 1..Len(S.conns) : S.conns[k].tag = ev.tag THEN (CHOOSE k \\in 1..Len(S.conns) : S.conns[k].tag = ev.tag) - 1 ELSE Len(S.conns), ev.role)',
                          'MC_Gdb.tla', 'MC_Gdb.cfg', ['InvGState', 'PropGStep']),
    # C10: any command resumes the program
    'any-command-resumes': ('GdbSession.tla', '!.halted = (ex = "none")]', '!.halted = FALSE]', 'MC_Gdb.tla', 'MC_Gdb.cfg', ['PropGStep']),
    # C14: letters as plain base 26 (a = 0): `aa` would be position 0 again
    'letters-plain-base26': ('LetterId.tla', 'ELSE ToLettersIn(alpha, (n \\div 26) - 1) \\o <<alpha[(n % 26) + 1]>>',
                             'ELSE ToLettersIn(alpha, n \\div 26) \\o <<alpha[(n % 26) + 1]>>', 'MC_LetterId.tla', 'MC_LetterId_quick.cfg',
                             ['RoundTrip', 'NoGaps', 'Increasing']),
    # C07: the description loaded first wins
    'first-loaded-wins': ('Protocol.tla', 'IF d.name \\in DOMAIN tbl /\\ tbl[d.name].version >= d.version THEN tbl', 'IF d.name \\in DOMAIN tbl THEN tbl',
                          'MC_Protocol.tla', 'MC_Protocol.cfg', ['HighestWins', 'OrderFree']),
    # C19: the last marker splits the command line
    'last-marker-splits': ('CmdLine.tla', 'IN IF s = {} THEN 0 ELSE CHOOSE i \\in s : \\A j \\in s : i <= j', 'IN IF s = {} THEN 0 ELSE CHOOSE i \\in s : \\A j \\in s : i >= j',
                           'CmdLine.tla', 'CmdLine.cfg', ['FirstWins', 'ForwardedVerbatim']),
    # C01: arguments are split at every comma
    'split-at-comma': ('ArgSplit.tla', 'start2 == IF hit THEN i + 2 ELSE start', 'start2 == IF hit THEN i + 1 ELSE start',
                       'MC_ArgSplit.tla', 'MC_ArgSplit_quick.cfg', ['RoundTrip']),
    # C12: a matcher given to `filter` replaces the current one
    'filter-replaces': ('Matcher.tla', '''       ELSE Collapse([c |-> "acc", alts |-> cur.alts \\o Specifics(pos), excl |-> excl2,''',
                        '''       ELSE Collapse([c |-> "acc", alts |-> Specifics(pos), excl |-> excl2,''', 'MC_Matcher.tla', 'MC_Matcher_quick.cfg', ['LawRefine', 'LawAccumulate']),
    # C05: a comma list needs all of its alternatives
    'list-needs-all': ('Matcher.tla', 'ELSE /\\ (Len(top.pos) = 0 \\/ \\E i \\in 1..Len(top.pos) : PatSem(top.pos[i], m))',
                       'ELSE /\\ (Len(top.pos) = 0 \\/ \\A i \\in 1..Len(top.pos) : PatSem(top.pos[i], m))',
                       'MC_Matcher.tla', 'MC_Matcher_quick.cfg', ['LawUnionMinus']),
    # C05: exclusions are ignored
    'exclusions-ignored': ('Matcher.tla', '            /\\ ~ \\E i \\in 1..Len(top.neg) : PatSem(top.neg[i], m)', '            /\\ TRUE',
                           'MC_Matcher.tla', 'MC_Matcher_quick.cfg', ['LawUnionMinus', 'LawAccumulate']),
    # C09: arrays are not reported
    'arrays-skipped': ('Closure.tla', 'Codes == {"i", "u", "f", "s", "o", "n", "a", "h"}', 'Codes == {"i", "u", "f", "s", "o", "n", "h"}',
                       'MC_Closure.tla', 'MC_Closure.cfg', ['OnePerCode', 'InOrder', 'Agrees']),
}


def run(name):
    f, old, new, module, cfg, expect = M[name]
    tmp = tempfile.mkdtemp(prefix='specmut-', dir=os.path.join(V, 'out', 'tmp'))
    try:
        for x in os.listdir(SPEC):
            if x.endswith(('.tla', '.cfg')) and not x.startswith('_'):
                shutil.copy(os.path.join(SPEC, x), tmp)
        s = open(os.path.join(tmp, f)).read()
        for o, n in (old if isinstance(old, list) else [(old, new)]):
            if s.count(o) != 1:
                return name, 'PATTERN-NOT-FOUND', o[:60]
            s = s.replace(o, n)
        open(os.path.join(tmp, f), 'w').write(s)
        p = subprocess.run(['java', '-XX:+UseParallelGC', '-cp', '/opt/veriftools/tla/tla2tools.jar:/opt/veriftools/tla/CommunityModules-deps.jar',
                            'tlc2.TLC', '-metadir', os.path.join(tmp, 'm'), '-noGenerateSpecTE', '-workers', '8', '-config', cfg, module],
                           cwd=tmp, stdout=subprocess.PIPE, stderr=subprocess.STDOUT, timeout=1800)
        out = p.stdout.decode('utf-8', 'replace')
        viol = re.findall(r'Invariant (\w+) is violated|Action property (\w+) is violated|Temporal properties were violated|property (\w+) is violated', out)
        names = [x for t in viol for x in t if x] or (['(temporal)'] if 'Temporal properties were violated' in out else [])
        if 'Error: ' in out and not names:
            m = re.search(r'Error: (.*)', out)
            return name, 'ERROR', m.group(1)[:200]
        if not names:
            return name, 'MISSED', ''
        ok = expect is None or any(n in expect for n in names) or names == ['(temporal)']
        return name, 'REJECTED' if ok else 'REJECTED-BY-OTHER', ','.join(names)
    finally:
        shutil.rmtree(tmp, ignore_errors=True)


if __name__ == '__main__':
    os.makedirs(os.path.join(V, 'out', 'tmp'), exist_ok=True)
    bad = 0
    for n in (sys.argv[1:] or sorted(M)):
        name, verdict, info = run(n)
        print('%-24s %-18s %s' % (name, verdict, info), flush=True)
        bad += verdict in ('MISSED', 'ERROR', 'PATTERN-NOT-FOUND')
    sys.exit(1 if bad else 0)
