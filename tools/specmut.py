#!/venv/bin/python
"""Wrong designs the properties must reject (a test of the specification's properties, not of the tool).

Each entry replaces one piece of a specification module by a plausible wrong design, runs TLC on a copy of /verif/spec with the
listed configuration and expects the named invariant / property to be reported violated.  A property that accepts the wrong
design says nothing; such an entry prints MISSED.  Usage: tools/specmut.py [name ...]
"""
import os, re, shutil, subprocess, sys, tempfile
V = os.path.dirname(os.path.dirname(os.path.abspath(__file__)))
SPEC = os.path.join(V, 'spec')

M = {
    # C03: a server-range id handed out again leaves the previous holder alive
    'reuse-keeps-alive': ('ObjectTable.tla', 'THEN LET d1 == IF Latest(d, i).alive THEN Kill(d, i, t) ELSE d',
                          'THEN LET d1 == d', 'MC_Session.tla', 'MC_Session_tables.cfg', ['InvTables']),
    # C03: delete_id forgets the time of destruction
    'kill-without-time': ('ObjectTable.tla', '[@ EXCEPT !.alive = FALSE, !.dt = t]', '[@ EXCEPT !.alive = FALSE]',
                          'MC_Session.tla', 'MC_Session_life.cfg', ['InvTables', 'InvLife', 'InvDestroyed']),
    # C03: delete_id does not end the object's life
    'delete-is-noop': ('ObjectTable.tla', 'd1    == IF isDel THEN Kill(d, did, t) ELSE d', 'd1    == d',
                       'MC_Session.tla', 'MC_Session_tables.cfg', ['PropLifeEnds']),
    # C13: the tool closes its own write end right after the spawn, and main gives up waiting for the helper thread (a join with a
    # time limit): each half alone is harmless in this model, together the status may be returned before it is known
    'runmode-early-close-no-join': ('RunMode.tla', [
        ('WaiterClose  == /\\ waiter = "stored" /\\ toolEnd\' = FALSE /\\ waiter\' = "closed"',
         'WaiterClose  == /\\ waiter \\in {"waiting", "stored"} /\\ toolEnd /\\ toolEnd\' = FALSE /\\ waiter\' = (IF waiter = "stored" THEN "closed" ELSE waiter)'),
        ('MainJoin   == /\\ readerDone /\\ ~joined /\\ waiter = "closed" /\\ joined\' = TRUE',
         'MainJoin   == /\\ readerDone /\\ ~joined /\\ joined\' = TRUE')],
        None, 'MC_RunMode.tla', 'MC_RunMode_A.cfg', ['StatusPropagated', 'NeverInitial', 'AllBeforeStatus']),
    # C13: end of file taken as soon as the pipe is empty
    'runmode-eof-on-empty': ('RunMode.tla', 'ReaderEof  == /\\ ~readerDone /\\ pipe = <<>> /\\ ~childEnd /\\ ~toolEnd',
                             'ReaderEof  == /\\ ~readerDone /\\ pipe = <<>>',
                             'MC_RunMode.tla', 'MC_RunMode_A.cfg', ['Delivered', 'AllBeforeStatus']),
    # C10: the program halts when the *filter* selects the message
    'halt-on-filter': ('Session.tla', 'blo  == BreakLo(S2, k, r.rec)', 'blo  == SelectedLo(S2, k, r.rec)',
                       'MC_Gdb.tla', 'MC_Gdb.cfg', ['PropGStep']),
    # C06: only shown messages are recorded
    'record-only-shown': ('Session.tla', '!.hist = Append(@, r.rec), !.hconn = Append(@, k), !.hdy = Append(@, dy)]',
                          '!.hist = IF SelLo(S1.filter, r.rec) THEN Append(@, r.rec) ELSE @, !.hconn = IF SelLo(S1.filter, r.rec) THEN Append(@, k) ELSE @, !.hdy = IF SelLo(S1.filter, r.rec) THEN Append(@, dy) ELSE @]',
                          'MC_Session.tla', 'MC_Session_live.cfg', None),
}


def run(name):
    f, old, new, module, cfg, expect = M[name]
    tmp = tempfile.mkdtemp(prefix='specmut-', dir=os.path.join(V, 'out', 'tmp'))
    try:
        for x in os.listdir(SPEC):
            if x.endswith(('.tla', '.cfg')) and not x.startswith('_'):
                shutil.copy(os.path.join(SPEC, x), tmp)
        s = open(os.path.join(tmp, f)).read()
        for o, n in (old if isinstance(old, list) else [(old, new)]):
            if s.count(o) != 1:
                return name, 'PATTERN-NOT-FOUND', o[:60]
            s = s.replace(o, n)
        open(os.path.join(tmp, f), 'w').write(s)
        p = subprocess.run(['java', '-XX:+UseParallelGC', '-cp', '/opt/veriftools/tla/tla2tools.jar:/opt/veriftools/tla/CommunityModules-deps.jar',
                            'tlc2.TLC', '-metadir', os.path.join(tmp, 'm'), '-noGenerateSpecTE', '-workers', '8', '-config', cfg, module],
                           cwd=tmp, stdout=subprocess.PIPE, stderr=subprocess.STDOUT, timeout=1800)
        out = p.stdout.decode('utf-8', 'replace')
        viol = re.findall(r'Invariant (\w+) is violated|Action property (\w+) is violated|Temporal properties were violated|property (\w+) is violated', out)
        names = [x for t in viol for x in t if x] or (['(temporal)'] if 'Temporal properties were violated' in out else [])
        if 'Error: ' in out and not names:
            m = re.search(r'Error: (.*)', out)
            return name, 'ERROR', m.group(1)[:200]
        if not names:
            return name, 'MISSED', ''
        ok = expect is None or any(n in expect for n in names) or names == ['(temporal)']
        return name, 'REJECTED' if ok else 'REJECTED-BY-OTHER', ','.join(names)
    finally:
        shutil.rmtree(tmp, ignore_errors=True)


if __name__ == '__main__':
    os.makedirs(os.path.join(V, 'out', 'tmp'), exist_ok=True)
    bad = 0
    for n in (sys.argv[1:] or sorted(M)):
        name, verdict, info = run(n)
        print('%-24s %-18s %s' % (name, verdict, info), flush=True)
        bad += verdict in ('MISSED', 'ERROR', 'PATTERN-NOT-FOUND')
    sys.exit(1 if bad else 0)
