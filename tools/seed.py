#!/usr/bin/env python3
"""Seeded changes (written by independent sub-agents in scratch worktrees): verify, import, run the checks against them.

  seed.py verify WORKTREE           tests still pass with the change; the demo fails with it and passes without it
  seed.py import WORKTREE NAME      copy patch.diff / demo.py / meta.json to /verif/seeded/NAME/
  seed.py run NAME [CHECK ...]      apply the patch to /repo, run the checks (quick), undo, record the result in meta.json
"""
import json, os, re, shutil, subprocess, sys
VERIF = os.path.dirname(os.path.dirname(os.path.abspath(__file__)))
SEEDED = os.path.join(VERIF, 'seeded')
PY = '/venv/bin/python'
REPO = os.environ.get('VERIF_REPO', '/repo')


def sh(cmd, cwd=None, timeout=3000):
    # own process group: on a timeout everything the command started is killed, not only the shell
    import signal
    p = subprocess.Popen(cmd, shell=True, cwd=cwd, stdout=subprocess.PIPE, stderr=subprocess.STDOUT, start_new_session=True)
    try:
        out, _ = p.communicate(timeout=timeout)
    except subprocess.TimeoutExpired:
        os.killpg(p.pid, signal.SIGKILL)
        out, _ = p.communicate()
        return 124, out.decode('utf-8', 'replace') + '\n(timed out after %d s)' % timeout
    return p.returncode, out.decode('utf-8', 'replace')


def tests(wt):
    rc, out = sh(PY + ' -m pytest -q -p no:cacheprovider 2>&1 | tail -1', cwd=wt)
    m = re.search(r'(\d+) failed, (\d+) passed', out)
    return (int(m.group(1)), int(m.group(2))) if m else out.strip()


def verify(wt):
    # (no git stash: the stash is shared by all worktrees of a repository)
    patch = os.path.join(wt, '_seed', 'patch.diff')
    sh('git checkout -- .', cwd=wt)
    rc, out = sh('git apply ' + patch, cwd=wt)
    if rc != 0:
        print('patch.diff does not apply to a clean tree:', out)
        return False
    rc, diff = sh('git diff', cwd=wt)
    print('files changed:', sh('git diff --stat | tail -1', cwd=wt)[1].strip())
    t_with = tests(wt)
    rc_with, out_with = sh(PY + ' _seed/demo.py', cwd=wt)
    sh('git checkout -- .', cwd=wt)
    try:
        t_without = tests(wt)
        rc_without, out_without = sh(PY + ' _seed/demo.py', cwd=wt)
    finally:
        sh('git apply ' + patch, cwd=wt)
    ok = t_with == (21, 214) and t_without == (21, 214) and rc_with == 1 and rc_without == 0
    print('tests with change', t_with, 'without', t_without, '| demo with change rc', rc_with, 'without rc', rc_without, '=>', 'CONFIRMED' if ok else 'NOT CONFIRMED')
    if rc_with != 1:
        print(out_with[-500:])
    if rc_without != 0:
        print(out_without[-500:])
    return ok


def imp(wt, name):
    d = os.path.join(SEEDED, name)
    os.makedirs(d, exist_ok=True)
    for f in ('patch.diff', 'demo.py', 'meta.json'):
        shutil.copy(os.path.join(wt, '_seed', f), os.path.join(d, f))
    meta = json.load(open(os.path.join(d, 'meta.json')))
    meta.setdefault('confirmed', 'tests 214 pass with and without the change; demo exits 1 with it and 0 without it (tools/seed.py verify)')
    json.dump(meta, open(os.path.join(d, 'meta.json'), 'w'), indent=1)
    print('imported', d)


def run(name, checks):
    d = os.path.join(SEEDED, name)
    meta = json.load(open(os.path.join(d, 'meta.json')))
    checks = checks or [meta['property']]
    assert sh('git -C %s diff --quiet' % REPO)[0] == 0, 'repo dirty'
    rc, out = sh('git -C %s apply ' % REPO + os.path.join(d, 'patch.diff'))
    assert rc == 0, out
    res = {}
    try:
        for c in checks:
            rc, out = sh('./check ' + c, cwd=VERIF)
            keys = re.findall(r'\[([^\]\n]*)\]\s*$', out, re.M)
            res[c] = {'exit': rc, 'violations': len(re.findall(r'^VIOLATION', out, re.M)), 'keys': sorted(set(keys))[:6]}
            print(c, 'exit', rc, res[c]['keys'][:3])
    finally:
        sh('git -C %s checkout -- .' % REPO)
    if os.environ.get('SEED_NO_RECORD'):
        return res
    meta.setdefault('checks', {}).update(res)
    meta['detected_by'] = sorted(c for c, r in meta['checks'].items() if r['exit'] == 1)
    json.dump(meta, open(os.path.join(d, 'meta.json'), 'w'), indent=1)


if __name__ == '__main__':
    if sys.argv[1] == 'verify':
        sys.exit(0 if verify(sys.argv[2]) else 1)
    if sys.argv[1] == 'import':
        imp(sys.argv[2], sys.argv[3])
    if sys.argv[1] == 'run':
        run(sys.argv[2], sys.argv[3:])
