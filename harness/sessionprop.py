"""Shared runner for the properties decided on Session traces.

sessions: iterable of (trace, render options, label).  Every session is run
through the real tool (E1), the recorded traces are validated by TLC against
spec/TraceSession.tla in batches, and the differing aspects that belong to the
property's observation map (`relevant`) become violations.
"""
import copy, json
import e1, tracecheck
from tlc import MachineryError


def inputs_only(trace):
    out = {'init': trace['init'], 'events': [{'in': e['in']} for e in trace['events']]}
    if 'mode' in trace:
        out['mode'] = trace['mode']
    return out


def describe(trace, step):
    ev = trace['events'][step - 1]['in'] if 0 < step <= len(trace['events']) else {}
    return json.dumps(ev, sort_keys=True)[:300]


def default_key(trace, step, aspects):
    ev = trace['events'][step - 1]['in'] if 0 < step <= len(trace['events']) else {'e': '?'}
    kind = ev['e'] + ('.' + ev['c'] if ev['e'] == 'cmd' else '') + ('.' + ev['cmd']['c'] if ev['e'] == 'invoke' else '')
    return kind + ':' + ','.join(sorted(aspects))


def run_sessions(ctx, rep, sessions, relevant, classify=None, batch=1200, color=False, label='sessions',
                 signature=None, runner=None, spec=('TraceSession.tla', 'TraceSession.cfg')):
    classify = classify or default_key
    pending = []

    def flush():
        if not pending:
            return
        traces = [p[0] for p in pending]
        v = tracecheck.validate_parallel(traces, name=ctx.prop.lower(), spec=spec)
        rep.add_tlc(v, 'TraceSession on %d traces / %d steps (%s)' % (v.ntraces, v.nsteps, label))
        rep.traces += v.ntraces
        for t, l, asp in v.failing(relevant):
            tr, render, lab = pending[t - 1]
            key = classify(tr, l, asp)
            rep.violation(key, 'session step %d (%s) differs from Session!Step in %s' % (l, describe(tr, l), asp),
                          {'kind': 'session', 'trace': inputs_only(tr), 'render': render, 'step': l, 'aspects': asp,
                           'label': lab, 'color': color})
        for tr, render, lab in pending:
            if 'escaped' in tr:
                rep.violation('escaped-exception', 'an exception escaped the tool: ' + tr['escaped'][-300:],
                              {'kind': 'session', 'trace': inputs_only(tr), 'render': render, 'label': lab})
        del pending[:]

    for trace, render, lab in sessions:
        if runner is not None:
            runner(trace, render)
        else:
            e1.run(trace, render=render, color=color)
        nmsg = sum(1 for e in trace['events'] if e['in']['e'] == 'msg')
        rep.case(signature(trace) if signature else json.dumps(inputs_only(trace), sort_keys=True))
        if len(rep.samples) < 3:
            rep.sample({'label': lab, 'render': render, 'events': [e['in'] for e in trace['events'][:6]],
                        'first_observed_items': [i for e in trace['events'][:3] for i in e['obs']['items']][:4]})
        pending.append((trace, render, lab))
        if 'ToolStuck' in trace.get('escaped', ''):
            # the tool hangs or keeps growing in this process: what was recorded so far is judged, nothing more is fed in
            break
        if len(pending) >= batch:
            flush()
    flush()


def replay_session(ctx, data, relevant, runner=None, spec=('TraceSession.tla', 'TraceSession.cfg')):
    if data.get('kind') == 'process-session':
        import e2
        d = e2.compare(copy.deepcopy(data['trace']), data.get('render') or {}, mode=data.get('mode', 'file'))
        print('the real process agrees with the in-process run' if d is None else 'differs (%s): %s' % (sorted(d[0]), d[1]))
        return d is not None
    trace = copy.deepcopy(data['trace'])
    if runner is None and data.get('label') == 'gdb-mode':
        # a session that was run through GDB mode (E3-lite) is replayed the same way
        from props import gdbbase
        runner, spec = gdbbase.runner, gdbbase.SPEC
    if runner is not None:
        runner(trace, data.get('render'))
    else:
        e1.run(trace, render=data.get('render'), color=data.get('color', False))
    v = tracecheck.validate([trace], name='replay', keep=True, spec=spec)
    fails = v.failing(relevant)
    for t, l, asp in v.fails:
        print('step %d: %s  (%s)' % (l, asp, describe(trace, l)))
        print('   expected by the specification:', json.dumps(v.expect.get((t, l)))[:1500])
        print('   observed items:', json.dumps(trace['events'][l - 1]['obs']['items'])[:1500])
    if 'escaped' in trace:
        print('escaped exception:\n' + trace['escaped'])
    print('trace file kept at', v.file)
    return bool(fails) or 'escaped' in trace
