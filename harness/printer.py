"""Printer model: an abstract message event -> the line libwayland prints for it.

Transcribed from wl_closure_print() of libwayland 1.23.1 with the repository's
patches (resources/libwayland-patches: `<conn_id> ` after the optional
`{queue} `) = dialect "new", and from the pre-1.22 format seen in the shipped
logs = dialect "old" (`@`, `%f` fixed-point with the locale's decimal mark,
`array` without a size, time as a float of milliseconds).

Abstract arguments (the same records the TLA+ modules use):
  {"k":"int","v":n}  {"k":"uint","v":n}  {"k":"float","raw":n}   (raw = 24.8 fixed = value*256)
  {"k":"str","s":text}  {"k":"obj","type":t,"id":i}  {"k":"new","type":t|"","id":i}
  {"k":"nil","type":""}  {"k":"fd","v":n}  {"k":"array","n":bytes}
Ids are 32-bit two's complement in the abstract world (TLC integers are 32 bit).
"""


def u32(i):
    return i & 0xffffffff


def fixed_new(raw):
    # the magic number 390625 is 1e8 / 256
    if raw >= 0:
        return '%d.%08d' % (raw // 256, 390625 * (raw % 256))
    # C semantics: / and % truncate toward zero
    q = -((-raw) // 256)
    r = -((-raw) % 256)
    return '-%d.%08d' % (-q, -390625 * r)


def fixed_old(raw, mark):
    return ('%f' % (raw / 256.0)).replace('.', mark)


def arg_text(a, dialect, mark='.'):
    at = '#' if dialect == 'new' else '@'
    k = a['k']
    if k == 'int':
        return '%d' % a['v']
    if k == 'uint':
        return '%u' % u32(a['v'])
    if k == 'float':
        return fixed_new(a['raw']) if dialect == 'new' else fixed_old(a['raw'], mark)
    if k == 'str':
        return '"%s"' % a['s']
    if k == 'obj':
        return '%s%s%u' % (a['type'], at, u32(a['id']))
    if k == 'new':
        return 'new id %s%s%u' % (a['type'] or '[unknown]', at, u32(a['id']))
    if k == 'nil':
        return 'nil'
    if k == 'fd':
        return 'fd %d' % a['v']
    if k == 'array':
        return 'array[%d]' % a['n'] if dialect == 'new' else 'array'
    if k == 'raw':        # verbatim text (ill-formed input on purpose)
        return a['text']
    raise ValueError(k)


def timestamp(t_us, dialect, mark='.'):
    if dialect == 'new':
        return '[%7u.%03u]' % (t_us // 1000, t_us % 1000)
    return ('[%10.3f]' % (t_us / 1000.0)).replace('.', mark)


def line(ev, dialect='new', mark='.', queue=None, offset=0, discarded=False):
    """ev: {"tag","t","m":{"ttype","tid","name","sent","args"}} -> text (no newline)"""
    m = ev['m']
    at = '#' if dialect == 'new' else '@'
    s = timestamp(ev['t'] + offset, dialect, mark) + ' '
    if queue is not None:
        s += '{%s} ' % queue
    if ev.get('tag', '') != '':
        s += '<%s> ' % ev['tag']
    s += '%s%s%s%s%u.%s(' % ('discarded ' if discarded else '', ' -> ' if m['sent'] else '',
                             m['ttype'], at, u32(m['tid']), m['name'])
    s += ', '.join(arg_text(a, dialect, mark) for a in m['args'])
    return s + ')'
