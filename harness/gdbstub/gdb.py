"""Minimal stand-in for gdb's Python module: enough to import backends.gdb_plugin.plugin and step Plugin in-process
(E3-lite, DESIGN 3.3).  Only on the sys.path of harness/e3lite.py.  Plugin.process_message / close_connection /
invoke_command never touch inferior memory; they need the selected thread's number, gdb.execute and the base classes."""
import sys
STDERR = 2
STDOUT = 1
COMMAND_DATA = 0
TYPE_CODE_PTR = 1
calls = []
thread_num = 1
written = []


class _T:
    def pointer(self):
        return self


def lookup_type(name):
    return _T()


class _Thread:
    @property
    def global_num(self):
        return thread_num


def selected_thread():
    return _Thread()


def execute(cmd, *a, **k):
    calls.append(cmd)


def write(s, stream=None):
    written.append(s)


def breakpoints():
    return []


class Breakpoint:
    def __init__(self, *a, **k):
        pass


class Command:
    def __init__(self, *a, **k):
        pass
