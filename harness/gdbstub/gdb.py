"""Minimal stand-in for gdb's Python module: enough to import backends.gdb_plugin.plugin and step Plugin in-process
(E3-lite, DESIGN 3.3).  Only on the sys.path of harness/e3lite.py.  Plugin.process_message / close_connection /
invoke_command never touch inferior memory; they need the selected thread's number, gdb.execute and the base classes."""
import sys
STDERR = 2
STDOUT = 1
COMMAND_DATA = 0
TYPE_CODE_PTR = 1
calls = []
thread_num = 1
written = []


class _T:
    def pointer(self):
        return self


def lookup_type(name):
    return _T()


class _Thread:
    @property
    def global_num(self):
        return thread_num


def selected_thread():
    return _Thread()


def execute(cmd, *a, **k):
    calls.append(cmd)


def write(s, stream=None):
    written.append(s)


def breakpoints():
    return []


breakpoint_objects = []     # every Breakpoint the plugin creates: (spec, object)
command_objects = []        # every Command the plugin registers: (name, object)
frame_vars = {}             # what selected_frame().read_var(name) returns


class _Frame:
    def read_var(self, name):
        return frame_vars[name]


def selected_frame():
    return _Frame()


class Breakpoint:
    def __init__(self, spec=None, *a, **k):
        breakpoint_objects.append((spec, self))


class Command:
    def __init__(self, name=None, *a, **k):
        command_objects.append((name, self))


# gdb.events: registries the plugin may connect handlers to; the driver fires them (fire('exited', exit_code=0))
class _Registry:
    def __init__(self):
        self.handlers = []

    def connect(self, f):
        self.handlers.append(f)

    def disconnect(self, f):
        if f in self.handlers:
            self.handlers.remove(f)


class _Events:
    def __getattr__(self, name):
        if name.startswith('_'):
            raise AttributeError(name)
        r = _Registry()
        setattr(self, name, r)
        return r


events = _Events()


def fire(name, **attrs):
    ev = type('Event', (), attrs)()
    for f in list(getattr(events, name).handlers):
        f(ev)


class error(Exception):
    pass


class MemoryError(error):
    pass
