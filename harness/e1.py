"""E1: the in-process session driver.

Builds the object graph exactly as main.main does (protocol.load_all,
ConnectionManager, Controller, Output over two streams) and calls
parse.into_sink(F, ...) where F is the driver posing as the input file:
parse_all calls F.readline() when - and only when - it has finished the
previous line, so inside readline() the driver
  (a) collects what was written for the previous event and lexes it,
  (b) projects the tool's state through its public interfaces,
  (c) issues any user commands scheduled before the next line
      (controller.process_command, as Plugin.invoke_command does),
  (d) returns the next concretised line, or '' for end of input.

The result is a trace: for every abstract input event, what the tool was
observed to do.  No verdict is taken here; spec/TraceSession.tla judges.
"""
import logging, os, sys

REPO = os.environ.get('VERIF_REPO', '/repo')
if REPO not in sys.path:
    sys.path.insert(0, REPO)

from tlc import MachineryError  # noqa: E402
import lexer, printer, mrender  # noqa: E402

logging.disable(logging.CRITICAL)

_mods = None


def mods():
    """import the tool lazily (and once)"""
    global _mods
    if _mods is None:
        try:
            from core import wl, matcher, ConnectionManager
            from core.wl import protocol
            from core.output import Output, stream
            from core import util
            from frontends.tui import Controller
            from backends.libwayland_debug_output import parse
        except Exception as e:  # the tree does not even import: nothing can be said about any property
            raise MachineryError('cannot import the tool from %s: %r' % (REPO, e))

        class M:
            pass
        m = M()
        m.wl, m.matcher, m.ConnectionManager, m.protocol = wl, matcher, ConnectionManager, protocol
        m.Output, m.stream, m.util, m.Controller, m.parse = Output, stream, util, Controller, parse
        m.loaded = False
        _mods = m
    return _mods


def tc(v):
    v &= 0xffffffff
    return v - (1 << 32) if v >= (1 << 31) else v


NOTIME = -2000000000


def ticks(x):
    return NOTIME if x is None else int(round(x * 1e6))


def need(obj, attr):
    try:
        return getattr(obj, attr)
    except AttributeError:
        raise MachineryError('the tool no longer has attribute %s on %s (renamed?): cannot project its state'
                             % (attr, type(obj).__name__))


def title_of(text):
    """the title part of str(connection): NAME (role[ to][ title][, closed])"""
    inner = text[text.index('(') + 1:text.rindex(')')]
    if inner.endswith(', closed'):
        inner = inner[:-len(', closed')]
    for word in ('client', 'server', 'unknown type'):
        if inner == word:
            return ''
        if inner.startswith(word + ' '):
            t = inner[len(word) + 1:]
            if word == 'server' and t.startswith('to '):
                t = t[3:]
            return t
    return inner


class Recorder:
    """the two output streams, in order of writing"""

    def __init__(self, m):
        self.chunks = []
        rec = self

        class S(m.stream.Base):
            def __init__(self, chan):
                self.chan = chan

            def override_write(self, string):
                rec.chunks.append((self.chan, string))
        self.out, self.err = S('out'), S('err')

    def take(self):
        c, self.chunks = self.chunks, []
        return c


def proj_ref(o):
    g = need(o, 'generation')
    return {'id': tc(need(o, 'id')), 'type': need(o, 'type') or '', 'gen': -1 if g is None else g}


def proj_arg(m, a):
    A = m.wl.Arg
    out = {'name': a.name or ''}
    if isinstance(a, A.Int):
        out.update(k='int', v=a.value, labels=list(getattr(a, 'labels', [])))
    elif isinstance(a, A.Float):
        raw = lexer._num_raw(repr(a.value))
        out.update(k='float', raw=raw if raw is not None else 0, exact=raw is not None)
    elif isinstance(a, A.String):
        out.update(k='str', s=a.value)
    elif isinstance(a, A.Null):
        out.update(k='nil', niltype=a.type or '')
    elif isinstance(a, A.Object):
        out.update(k='obj', new=bool(a.is_new), obj=proj_ref(a.obj))
    elif isinstance(a, A.Fd):
        out.update(k='fd', v=a.value)
    elif isinstance(a, A.Array):
        out.update(k='array')
    else:
        out.update(k='unknown')
    return out


def proj_msg(m, msg):
    d = need(msg, 'destroyed_obj')
    return {'t': ticks(msg.timestamp), 'sent': bool(msg.sent), 'name': msg.name, 'target': proj_ref(msg.obj),
            'args': [proj_arg(m, a) for a in msg.args],
            'dest': proj_ref(d) if d is not None else {'id': 0, 'type': '', 'gen': 0}}


class Session:
    def __init__(self, show=True, f_text=None, b_text=None, color=False):
        m = mods()
        self.m = m
        m.util.set_color_output(color)
        m.wl.Message.base_time = None
        self.rec = Recorder(m)
        self.output = m.Output(False, show, self.rec.out, self.rec.err)
        if not m.loaded:
            m.protocol.dump_all()
            m.protocol.load_all(self.output)
            m.loaded = True
            self.rec.take()
        self.cm = m.ConnectionManager()
        if f_text is None and b_text is None:
            fm, bm = m.matcher.always, m.matcher.never
        else:
            # matchers given with -f / -b reach the controller the way main.py hands them over: through parse_args
            from frontends.tui import parse_args
            # (inside GDB - here: with the stand-in gdb module loaded - the instance is the plugin and takes no mode option)
            in_gdb = bool(m.util.check_gdb())
            argv = ['wayland-debug'] + ([] if in_gdb else ['-l', '/dev/null']) + (['-f', f_text] if f_text is not None else []) + (['-b', b_text] if b_text is not None else [])
            try:
                a = parse_args(argv)
            except SystemExit as e:
                raise RuntimeError('parse_args exits with %r for %r' % (e.code, argv))
            fm, bm = a.filter_matcher, a.stop_matcher
            m.util.set_color_output(color)
        self.ctl = m.Controller(self.output, self.cm, fm, bm)
        self.ids = {}        # connection ordinal -> ids mentioned so far (for the table projection)
        self.ncreate = {}    # (connection ordinal, id) -> new-id arguments fed so far
        self.tagconn = {}    # tag -> ordinal of the connection currently carrying it

    # ---- projections -----------------------------------------------------
    def conns(self):
        out = []
        for c in self.cm.connections():
            srv = c.is_server()
            out.append({'name': c.name(), 'role': 'unknown' if srv is None else ('server' if srv else 'client'),
                        'open': bool(c.is_open()), 'n': len(c.messages()), 'appid': c.app_id() or '',
                        'title': title_of(lexer.strip_color(str(c)))})
        return out

    def db(self, k):
        """table of the k-th connection (1-based) through retrieve_object only"""
        c = self.cm.connections()[k - 1]
        out = []
        for i in sorted(self.ids.get(k, set()) | {1}):
            objs = []
            g = 0
            while True:
                try:
                    o = c.retrieve_object(i & 0xffffffff, g, None)
                except RuntimeError:
                    break
                objs.append({'type': o.type or '', 'alive': bool(need(o, 'alive')),
                             'ct': ticks(need(o, 'create_time')), 'dt': ticks(need(o, 'destroy_time'))})
                g += 1
                # an id cannot have more incarnations than creations were fed in: do not ask further
                # (a lookup that answers for every generation then shows up as extra incarnations)
                if g > self.ncreate.get((k, i), 0) + 1:
                    break
            if objs:
                out.append({'id': i, 'objs': objs})
        return out

    def hist(self):
        return need(self.ctl, 'all_messages')

    def fsel(self):
        dm = need(self.ctl, 'display_matcher')
        return [bool(dm.matches(x)) for x in self.hist()]

    def bsel(self):
        sm = need(self.ctl, 'stop_matcher')
        return [bool(sm.matches(x)) for x in self.hist()]

    def sel(self):
        cur = need(self.ctl, 'current_connection')
        if cur is None:
            return 0
        for k, c in enumerate(self.cm.connections()):
            if c is cur:
                return k + 1
        return -1

    def items(self):
        out = []
        for chan, text in self.rec.take():
            out.append(lexer.lex_out(text) if chan == 'out' else lexer.lex_err(text))
        return out


COMMAND_WORDS = {'filter': 'filter', 'break': 'breakpoint', 'list': 'list', 'conn': 'connection', 'resume': 'resume', 'quit': 'quit'}


def spell_command(word, ev):
    """Commands can be abbreviated down to their first letter and written GDB-style (`wl list`, `wllist`, `w l`):
    every spelling is the same command (spec/CommandWords.tla); which one is typed is a deterministic function of the event."""
    h = sum(ord(c) * (i + 7) for i, c in enumerate(repr(sorted(ev.items(), key=lambda kv: kv[0]))[:200]))
    if ev.get('plain'):
        return word
    n = [len(word), 1, 3, len(word), 2, len(word) - 1][h % 6]
    w = word[:max(1, n)]
    style = (h // 6) % 7
    if style == 1:
        return 'wl ' + w
    if style == 2:
        return 'wl' + w
    if style == 3:
        return 'w ' + w
    if style == 4:
        return w.upper() if False else w      # command words are case-sensitive prefixes of lower-case names
    return w


def command_text(ev):
    """abstract command event -> what the user types"""
    if 'text' in ev:
        return ev['text']
    c = ev['c']
    sp = mrender.Spelling(*ev.get('spell', ('', '', ())))
    if c in ('filter', 'break'):
        word = spell_command(COMMAND_WORDS[c], ev)
        if not ev['hasarg']:
            return word
        return word + ' ' + (ev['bad'] if not ev['ok'] else mrender.r_top(ev['ast'], sp))
    if c == 'list':
        s = spell_command('list', ev)
        if ev['hasm']:
            s += ' ' + (ev['bad'] if not ev['ok'] else mrender.r_top(ev['ast'], sp))
        if ev.get('captext') is not None:
            s += ' ~ ' + ev['captext']
        elif ev['cap'] >= 0:
            s += ' ~ ' + str(ev['cap'])
        return s
    if c == 'conn':
        return spell_command('connection', ev) + (' ' + ev['arg'] if ev['arg'] else '')
    if c in ('resume', 'quit'):
        return spell_command(c, ev)
    raise ValueError(c)


class ToolStuck(BaseException):
    """the tool did not come back (or kept growing): raised from a timer inside the tool's own code; a BaseException, so
    that the tool's catch-all handlers do not swallow it"""


STUCK = {'n': 0}
TIMES = []      # seconds per event of the runs so far
SLOW = {'s': 0.0}   # seconds spent beyond 30 times the usual, summed over the sessions of this process


def _rss_mb():
    try:
        with open('/proc/self/statm') as f:
            return int(f.read().split()[1]) * 4096 // (1 << 20)
    except Exception:
        return 0


class limit:
    """Resource guard around one run of the tool in this process: a session that takes milliseconds when all is well may,
    after a change to the tool, never finish or eat all memory (state shared between sessions that keeps growing).
    seconds / growth are far beyond anything a working tool needs; exceeding them surfaces as an escaped ToolStuck."""

    def __init__(self, seconds, grow_mb=3000):
        self.seconds, self.grow_mb = seconds, grow_mb

    def __enter__(self):
        import signal, threading, time
        self.on = threading.current_thread() is threading.main_thread()
        if not self.on:
            return self
        t0, m0 = time.time(), _rss_mb()

        def tick(signum, frame):
            if time.time() - t0 > self.seconds:
                raise ToolStuck('no answer from the tool after %d s' % self.seconds)
            if _rss_mb() - m0 > self.grow_mb:
                raise ToolStuck('the tool grew by more than %d MB while processing one session' % self.grow_mb)
        self.old = signal.signal(signal.SIGALRM, tick)
        signal.setitimer(signal.ITIMER_REAL, 1.0, 1.0)
        return self

    def __exit__(self, *exc):
        import signal
        if self.on:
            signal.setitimer(signal.ITIMER_REAL, 0)
            signal.signal(signal.SIGALRM, self.old)
        return False


def run(trace, *args, **kw):
    """run_unguarded under the resource guard (see `limit`)"""
    return guarded(run_unguarded, trace, *args, **kw)


def guarded(fn, trace, *args, **kw):
    """fn(trace, ...) - a driver that runs the tool in this process - under the resource guard"""
    # the limit is relative to what sessions take in this process when all is well (milliseconds to a second): 300 times
    # the median per event so far, at least 15 s; 150 s while nothing is known yet
    import time
    n = max(1, len(trace['events']))
    if len(TIMES) >= 20:
        # (the first sessions of the process are the yardstick: a tool that gets a little slower with every session must not
        # move it)
        base = sorted(TIMES[:50])[min(len(TIMES), 50) // 2]
        secs = max(15.0, 300 * base * n)
    else:
        base = None
        secs = 150 + n // 20
    if STUCK['n']:
        secs = min(secs, 15.0)
    out = trace
    t0 = time.time()
    if 'rss0' not in SLOW:
        SLOW['rss0'] = _rss_mb()
    try:
        if SLOW['s'] > 120 or _rss_mb() - SLOW['rss0'] > 8000:
            raise ToolStuck('the tool has become slower and bigger from session to session in this process: %d s beyond 30 times '
                            'the usual time so far, %d MB more than at the start' % (SLOW['s'], _rss_mb() - SLOW['rss0']))
        with limit(secs):
            out = fn(trace, *args, **kw)
        dur = time.time() - t0
        if len(TIMES) < 2000:
            TIMES.append(dur / n)
        if base is not None:
            SLOW['s'] += max(0.0, dur - 30 * base * n - 0.5)
    except ToolStuck:
        import traceback
        trace['escaped'] = traceback.format_exc()[-2000:]
        for evrec in trace['events']:
            evrec.pop('_nh_before', None)
            if 'obs' not in evrec:
                evrec['obs'] = {'items': []}
    if 'ToolStuck' in trace.get('escaped', ''):
        STUCK['n'] += 1
    return out


def run_unguarded(trace, render=None, color=False, snapshot_db=True, keep_session=False, keep_raw=False):
    """trace: {"init": {...}, "events": [{"in": ev}, ...]}; fills in every event's "obs".

    render: dict of printer options (dialect, mark, queue, offset).
    Returns the trace (mutated) - events after an "eof" event must be commands.
    """
    render = dict(render or {})
    init = trace['init']
    # (init['ftext'] / init['btext']: the option's text as it is, for texts that are not renderings of a tree)
    f_text = init['ftext'] if 'ftext' in init else (mrender.r_top(init['f']) if init.get('hasf') else None)
    b_text = init['btext'] if 'btext' in init else (mrender.r_top(init['b']) if init.get('hasb') else None)
    S = Session(show=init.get('show', True), f_text=f_text, b_text=b_text, color=color)
    m = S.m
    if keep_session:
        trace['_S'] = S
    if keep_raw:
        orig_items = S.items

        def items_raw():
            chunks = list(S.rec.chunks)
            it = orig_items()
            S.last_raw = chunks
            return it
        S.items = items_raw
    events = trace['events']
    state = {'i': 0, 'pending': None}

    def observe(evrec):
        """called when the tool has finished with the event"""
        ev = evrec['in']
        obs = {'items': S.items(), 'conns': S.conns(), 'nh': len(S.hist()), 'sel': S.sel()}
        if keep_raw:
            obs['_raw'] = S.last_raw
        if ev['e'] == 'msg':
            tag = ev['tag'] if ev['tag'] != '' else 'PARSED'
            if tag not in S.tagconn:
                S.tagconn[tag] = len(S.cm.connections())
            k = S.tagconn[tag]
            ids = S.ids.setdefault(k, set())
            ids.add(ev['m']['tid'])
            for a in ev['m']['args']:
                if a['k'] in ('obj', 'new'):
                    ids.add(a['id'])
                if a['k'] == 'new':
                    S.ncreate[(k, a['id'])] = S.ncreate.get((k, a['id']), 0) + 1
                if a['k'] == 'int':
                    ids.add(a['v'])
            if evrec.get('_nh_before') is not None and len(S.hist()) == evrec['_nh_before'] + 1:
                obs['rec'] = proj_msg(m, S.hist()[-1])
            if snapshot_db and 1 <= k <= len(S.cm.connections()):
                obs['dbk'] = k
                obs['db'] = S.db(k)
        if ev['e'] == 'cmd' and ev['c'] in ('filter', 'break'):
            obs['fsel'] = S.fsel()
            obs['bsel'] = S.bsel()
        evrec.pop('_nh_before', None)
        evrec['obs'] = obs

    def do_eval(evrec):
        ev = evrec['in']
        text = mrender.r_top(ev['ast'], mrender.Spelling(*ev.get('spell', ('', '', ()))))
        obs = {'items': S.items(), 'text': text}
        try:
            mm = m.matcher.parse(text).simplify()
            obs['accepted'] = True
            obs['msel'] = [bool(mm.matches(x)) for x in S.hist()]
        except RuntimeError as e:
            obs['accepted'] = False
            obs['msel'] = []
            obs['error'] = str(e)[:200]
        except Exception as e:      # not a diagnostic but a failure of the tool (C18); shows up as a length mismatch here
            obs['accepted'] = True
            obs['msel'] = []
            obs['crash'] = repr(e)[:200]
        evrec['obs'] = obs

    def do_commands():
        """run command / eval events at the cursor; stop at the first line event"""
        while state['i'] < len(events) and events[state['i']]['in']['e'] in ('cmd', 'eval'):
            evrec = events[state['i']]
            state['i'] += 1
            if evrec['in']['e'] == 'eval':
                do_eval(evrec)
                continue
            try:
                S.ctl.process_command(command_text(evrec['in']))
            except MachineryError:
                raise
            except Exception as e:      # a command must produce output or an error line, never raise (C18)
                import traceback
                observe(evrec)
                evrec['obs']['raised'] = True
                evrec['obs']['exception'] = traceback.format_exc()[-600:]
                continue
            observe(evrec)

    if trace.get('mode') == 'iface':
        # the connection-id interface used directly (as the GDB plugin does): no parser bookkeeping
        try:
            for evrec in events:
                ev = evrec['in']
                evrec['_nh_before'] = len(S.hist())
                if ev['e'] == 'open':
                    role = {'client': False, 'server': True, 'unknown': None}[ev['role']]
                    S.cm.open_connection(0.0, ev['tag'], role)
                    S.tagconn[ev['tag']] = len(S.cm.connections())
                elif ev['e'] == 'close':
                    S.cm.close_connection(0.0, ev['tag'])
                elif ev['e'] == 'msg':
                    cid, msg = m.parse.message(printer.line(dict(ev, tag=''), **render))
                    S.cm.message(ev['tag'], msg)
                elif ev['e'] == 'cmd':
                    S.ctl.process_command(command_text(ev))
                else:
                    raise MachineryError('event %s not possible at the connection-id interface' % ev['e'])
                observe(evrec)
        except MachineryError:
            raise
        except BaseException:
            import traceback
            trace['escaped'] = traceback.format_exc()[-2000:]
            for evrec in events:
                evrec.pop('_nh_before', None)
                if 'obs' not in evrec:
                    evrec['obs'] = {'items': []}
        return trace

    class F:
        def readline(self_inner):
            if state['pending'] is not None:
                observe(state['pending'])
                state['pending'] = None
            do_commands()
            if state['i'] >= len(events):
                return ''
            evrec = events[state['i']]
            ev = evrec['in']
            if ev['e'] == 'eof':
                return ''
            state['i'] += 1
            state['pending'] = evrec
            evrec['_nh_before'] = len(S.hist())
            if ev['e'] == 'line':        # arbitrary text (fuzzing): no claim about what it is
                return ev['raw'] if ev.get('nonl') else ev['raw'] + '\n'
            if ev['e'] == 'msg':
                return ev.get('line') or (printer.line(ev, **render) + '\n')
            text = ev['raw'] if 'raw' in ev else ev['text']
            return text if ev.get('nonl') else text + '\n'

    try:
        m.parse.into_sink(F(), S.output, S.cm)
    except MachineryError:
        raise
    except BaseException as e:   # the tool failed: not a harness problem; recorded, judged by the caller
        import traceback
        trace['escaped'] = traceback.format_exc()[-2000:]
        for evrec in events:
            evrec.pop('_nh_before', None)
            if 'obs' not in evrec:
                evrec['obs'] = {'items': []}
        return trace
    # into_sink has returned: the cleanup ran
    if state['pending'] is not None:
        # cannot happen: readline is always called again after a line
        observe(state['pending'])
        state['pending'] = None
    if state['i'] < len(events) and events[state['i']]['in']['e'] == 'eof':
        evrec = events[state['i']]
        state['i'] += 1
        observe(evrec)
    elif state['i'] < len(events):
        # the tool left its input loop although there was more to read (no end of file was signalled): nothing of the rest
        # was consumed.  Not a harness problem: recorded like an escaped exception and judged by the caller.
        trace['escaped'] = ('InputNotConsumed: the tool stopped reading after %d of %d input events; next unread: %r'
                            % (state['i'], len(events), events[state['i']]['in']))
        for evrec in events:
            evrec.pop('_nh_before', None)
            if 'obs' not in evrec:
                evrec['obs'] = {'items': []}
        return trace
    else:
        # the driver ran out of events: an implicit end of input; record it so nothing goes unobserved
        events.append({'in': {'e': 'eof'}})
        state['i'] = len(events)
        observe(events[-1])
    do_commands()
    if state['i'] != len(events):
        raise MachineryError('events after eof must be commands')
    return trace
