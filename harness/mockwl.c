/* mockwl - a stand-in for libwayland that the real GDB plugin can be pointed at (E3, DESIGN 3.3).
 *
 * It defines libwayland's structures with their real member names and the call frames the plugin inspects:
 *   wl_closure_invoke / wl_closure_dispatch called from dispatch_event (client) or wl_client_connection_data (server),
 *   serialize_closure called from wl_closure_send / wl_closure_queue, and wl_connection_destroy.
 * It executes a scenario file, one operation per line:
 *   I <name>                                   interface (numbered 0, 1, ... in order)
 *   M <name> <signature> <ntypes> <t>...       message; one type per argument: interface number or -1 (NULL)
 *   C <kind> <conn>[/<owner>] <thread> <msg> <sender> <iface> <nargs> <arg>...   a closure
 *        kind 0 client receives (dispatch_event -> wl_closure_invoke)
 *             1 server receives (wl_client_connection_data -> wl_closure_invoke)
 *             2 server receives (wl_client_connection_data -> wl_closure_dispatch)
 *             3 wl_closure_send -> serialize_closure      4 wl_closure_queue -> serialize_closure
 *        <iface>: interface of the target object; args by type code:
 *             i u f h : decimal integer       s : =<hex bytes>, or - for NULL
 *             o : <iface>:<id> or -           n : integer id (kind 0: <iface>:<id>, the proxy)
 *             a : <count>:<v>,<v>,...  (32-bit integers)
 *   D <conn>                                   wl_connection_destroy(&conns[conn])
 * Before each operation it calls mock_marker(<line number>) (see there) so that the plugin's output can be attributed
 * to operations.  Connection structs come from a fixed array: address reuse is scripted.
 */
#include <pthread.h>
#include <stddef.h>
#include <stdint.h>
#include <stdio.h>
#include <stdlib.h>
#include <string.h>

typedef int32_t wl_fixed_t;
struct wl_interface;
struct wl_object;
struct wl_array;
struct wl_message { const char *name; const char *signature; const struct wl_interface **types; };
struct wl_interface { const char *name; int version; int method_count; const struct wl_message *methods; int event_count; const struct wl_message *events; };
struct wl_object { const struct wl_interface *interface; const void *implementation; uint32_t id; };
struct wl_array { size_t size; size_t alloc; void *data; };
union wl_argument { int32_t i; uint32_t u; wl_fixed_t f; const char *s; struct wl_object *o; uint32_t n; struct wl_array *a; int32_t h; };
struct wl_list { struct wl_list *prev, *next; };
struct wl_proxy;
struct wl_closure { int count; const struct wl_message *message; uint32_t opcode; uint32_t sender_id; union wl_argument args[20]; struct wl_list link; struct wl_proxy *proxy; struct wl_array extra[0]; };
struct wl_connection { int fd; int want_flush; int conn_id; };
struct wl_display;
struct wl_proxy { struct wl_object object; struct wl_display *display; };
struct wl_display { struct wl_proxy proxy; struct wl_connection *connection; };
struct wl_client { struct wl_connection *connection; };
struct wl_resource { struct wl_object object; void *destroy; struct wl_list link; struct wl_client *client; void *data; };
struct wl_event_queue { int x; };

volatile int g_current = 0;   /* line number of the operation being executed (probed from gdb) */
volatile int g_hits = 0;

__attribute__((noinline)) void wl_closure_invoke(struct wl_closure *closure, uint32_t flags, struct wl_object *target, uint32_t opcode, void *data) { g_hits++; }
__attribute__((noinline)) void wl_closure_dispatch(struct wl_closure *closure, void *dispatcher, struct wl_object *target, uint32_t opcode) { g_hits++; }
__attribute__((noinline)) static int serialize_closure(struct wl_closure *closure, uint32_t *buffer, size_t buffer_count) { g_hits++; return 0; }
__attribute__((noinline)) int wl_closure_send(struct wl_closure *closure, struct wl_connection *connection) { uint32_t buf[4]; return serialize_closure(closure, buf, 4); }
__attribute__((noinline)) int wl_closure_queue(struct wl_closure *closure, struct wl_connection *connection) { uint32_t buf[4]; return serialize_closure(closure, buf, 4); }
__attribute__((noinline)) static void dispatch_event(struct wl_display *display, struct wl_event_queue *queue, struct wl_closure *c, struct wl_object *t) { struct wl_closure *closure = c; wl_closure_invoke(closure, 1, t, closure->opcode, NULL); }
__attribute__((noinline)) static int wl_client_connection_data(int fd, uint32_t mask, void *data, struct wl_closure *c, struct wl_object *t, int use_dispatch) {
  struct wl_closure *closure = c;
  if (use_dispatch) wl_closure_dispatch(closure, NULL, t, closure->opcode); else wl_closure_invoke(closure, 2, t, closure->opcode, data);
  return 0;
}
__attribute__((noinline)) void wl_connection_destroy(struct wl_connection *connection) { g_hits++; }
/* The harness puts a breakpoint here whose commands write "@@ <line>" to the very stream the plugin writes to, so that
 * what the plugin prints can be attributed to operations without relying on the interleaving of two processes' output. */
__attribute__((noinline)) void mock_marker(int line) { g_current = line; }

#define MAXI 64
#define MAXM 4096
static struct wl_interface ifaces[MAXI]; static int nifaces;
static struct wl_message msgs[MAXM]; static int nmsgs;
static struct wl_connection conns[8];
static struct wl_display displays[8];
static struct wl_client clients[8];

struct op { int kind, conn, owner, thread, line; struct wl_closure *closure; struct wl_object *target; struct wl_resource *res; };

static char *unhex(const char *h) {
  size_t n = strlen(h) / 2; char *s = malloc(n + 1);
  for (size_t i = 0; i < n; i++) { unsigned v; sscanf(h + 2 * i, "%2x", &v); s[i] = (char)v; }
  s[n] = 0; return s;
}
static struct wl_object *mkobj(const char *spec) {
  int k; unsigned id;
  if (sscanf(spec, "%d:%u", &k, &id) != 2) { fprintf(stderr, "bad object spec %s\n", spec); exit(3); }
  struct wl_object *o = calloc(1, sizeof *o); o->interface = &ifaces[k]; o->id = id; return o;
}
static void *run_op(void *p) {
  struct op *o = p;
  switch (o->kind) {
  case 0: { struct wl_event_queue q; dispatch_event(&displays[o->owner], &q, o->closure, o->target); break; }
  case 1: wl_client_connection_data(0, 0, &clients[o->owner], o->closure, &o->res->object, 0); break;
  case 2: wl_client_connection_data(0, 0, &clients[o->owner], o->closure, &o->res->object, 1); break;
  case 3: wl_closure_send(o->closure, &conns[o->conn]); break;
  case 4: wl_closure_queue(o->closure, &conns[o->conn]); break;
  case 9: wl_connection_destroy(&conns[o->conn]); break;
  }
  return NULL;
}

int main(int argc, char **argv) {
  setvbuf(stdout, NULL, _IONBF, 0);
  if (argc < 2) { fprintf(stderr, "usage: mockwl SCENARIO\n"); return 2; }
  FILE *f = fopen(argv[1], "r");
  if (!f) { perror(argv[1]); return 2; }
  for (int i = 0; i < 8; i++) { displays[i].connection = &conns[i]; clients[i].connection = &conns[i]; conns[i].conn_id = i; }
  static char line[1 << 16];
  int lineno = 0;
  while (fgets(line, sizeof line, f)) {
    lineno++;
    char *tok = strtok(line, " \n");
    if (!tok || tok[0] == '#') continue;
    if (tok[0] == 'I') { ifaces[nifaces].name = strdup(strtok(NULL, " \n")); ifaces[nifaces].version = 1; nifaces++; }
    else if (tok[0] == 'M') {
      struct wl_message *m = &msgs[nmsgs++];
      m->name = strdup(strtok(NULL, " \n")); m->signature = strdup(strtok(NULL, " \n"));
      if (!strcmp(m->signature, "-")) m->signature = "";
      int nt = atoi(strtok(NULL, " \n"));
      const struct wl_interface **types = calloc(nt + 1, sizeof *types);
      for (int i = 0; i < nt; i++) { int t = atoi(strtok(NULL, " \n")); types[i] = t < 0 ? NULL : &ifaces[t]; }
      m->types = types;
    } else if (tok[0] == 'C') {
      struct op o; memset(&o, 0, sizeof o);
      o.line = lineno;
      o.kind = atoi(strtok(NULL, " \n"));
      /* <conn> or <conn>/<owner>: the wl_display / wl_client struct through which a received closure reaches its connection
         lives in its own slot - an owner's address can be re-used while its wl_connection is a different one */
      { char *ct = strtok(NULL, " \n"); o.conn = atoi(ct); char *sl = strchr(ct, '/'); o.owner = sl ? atoi(sl + 1) : o.conn; }
      displays[o.owner].connection = &conns[o.conn]; clients[o.owner].connection = &conns[o.conn];
      o.thread = atoi(strtok(NULL, " \n"));
      struct wl_message *m = &msgs[atoi(strtok(NULL, " \n"))];
      struct wl_closure *c = calloc(1, sizeof *c);
      c->message = m; c->sender_id = (uint32_t)strtoul(strtok(NULL, " \n"), NULL, 10);
      int tif = atoi(strtok(NULL, " \n"));
      int nargs = atoi(strtok(NULL, " \n"));
      c->count = nargs;
      int ai = 0;
      for (const char *s = m->signature; *s; s++) {
        if (!strchr("iufsonah", *s)) continue;
        char *a = strtok(NULL, " \n");
        if (!a) { fprintf(stderr, "line %d: missing argument\n", lineno); return 3; }
        switch (*s) {
        case 'i': c->args[ai].i = (int32_t)strtol(a, NULL, 10); break;
        case 'u': c->args[ai].u = (uint32_t)strtoul(a, NULL, 10); break;
        case 'f': c->args[ai].f = (int32_t)strtol(a, NULL, 10); break;
        case 'h': c->args[ai].h = (int32_t)strtol(a, NULL, 10); break;
        case 's': c->args[ai].s = strcmp(a, "-") ? unhex(a + 1) : NULL; break;
        case 'o': c->args[ai].o = strcmp(a, "-") ? mkobj(a) : NULL; break;
        case 'n': if (o.kind == 0) c->args[ai].o = mkobj(a); else c->args[ai].n = (uint32_t)strtoul(a, NULL, 10); break;
        case 'a': {
          struct wl_array *arr = calloc(1, sizeof *arr);
          int cnt = atoi(a); char *p = strchr(a, ':') + 1;
          int32_t *data = calloc(cnt + 1, sizeof *data);
          for (int i = 0; i < cnt; i++) { data[i] = (int32_t)strtol(p, &p, 10); if (*p == ',') p++; }
          /* "<count>+<x>:..." : x bytes beyond the last whole word */
          int extra = 0; { char *plus = strchr(a, '+'); if (plus && plus < strchr(a, ':')) extra = atoi(plus + 1); }
          arr->size = cnt * sizeof(int32_t) + extra; arr->alloc = arr->size; arr->data = data; c->args[ai].a = arr; break; }
        }
        ai++;
      }
      o.closure = c;
      struct wl_resource *res = calloc(1, sizeof *res);
      res->object.interface = &ifaces[tif]; res->object.id = c->sender_id; res->client = &clients[o.owner];
      o.res = res; o.target = &res->object;
      mock_marker(lineno);
      if (o.thread > 0) { pthread_t t; pthread_create(&t, NULL, run_op, &o); pthread_join(t, NULL); } else run_op(&o);
    } else if (tok[0] == 'D') {
      struct op o; memset(&o, 0, sizeof o);
      o.kind = 9; o.conn = atoi(strtok(NULL, " \n"));
      char *th = strtok(NULL, " \n"); o.thread = th ? atoi(th) : 0;
      mock_marker(lineno);
      if (o.thread > 0) { pthread_t t; pthread_create(&t, NULL, run_op, &o); pthread_join(t, NULL); } else run_op(&o);
    }
  }
  mock_marker(-1);
  printf("done %d\n", g_hits);
  return 0;
}
