"""Generators of abstract sessions (the environment of spec/Session.tla).

A session is {"init": {...}, "events": [{"in": ev}, ...]} with ev as described
in Session.tla.  The generator only does the bookkeeping needed to stay inside
the properties' quantifier - *well-formed* histories: client-range ids reused
only after their delete_id, server-range ids reused freely, mentions of the
latest incarnation with the type it has, non-decreasing time stamps - it
computes no expected result; expectations are Session!Step's, evaluated by TLC.

Message shapes are taken from the protocol descriptions (protoextract) so that
every generated line is one libwayland could print for the shipped protocols.
"""
import random
import protoextract
import mrender
from mrender import W, ANY

SRV0 = -16777216       # 0xff000000 as 32-bit two's complement
TEXTS = ['hello', 'a, b', 'x (y) [z]', 'wl_surface@3', 'nil', '12', 'fd 3', 'new id wl_x@4', ' -> wl_a@1.b()',
         'array', 'héllo ☃', '', 'a=b', "it's", 'tab\there', '1.5', '{q}', '<3>', 'x,y', ', ', '), ',
         'Report  -  draft', 'two  blanks', 'tabs\t\tx', 'text/plain;charset=utf-8', 'a;b']      # runs of white space inside a text are part of it
CHATTER = ['\x1b[1;31mERROR\x1b[0m: no cursor theme', 'plain \x1b[0m reset', '\x1b[33mwarning: colour left switched on', 'half \x1b[1m bold \x1b[31m red', 'hello world', '', 'using wayland', '[debug] frame 12', 'wl_surface@3.commit', '[123.456] not a message',
           '(EE) failed', 'a -> b', '[  12.345] wl_x@1.y(', 'éè unicode', 'x' * 200, '[]', '()',
           # what libwayland itself prints besides messages (a fatal protocol error), and lines that look like diagnostics
           'wl_surface@4: error 2: buffer size is not divisible by scale', 'wl_display@1: error 1: invalid arguments for wl_surface@4.attach',
           'error: something failed', 'Error: not from us', 'Warning: neither is this', 'Traceback (most recent call last):',
           # characters that str.splitlines() takes for line ends but a file does not: form feed, vertical tab, FS, NEL, U+2028
           'page 1 of the report\x0cpage 2', 'v\x0btab', 'fs\x1cgs\x1drs\x1e.', 'nel\x85next', 'line\u2028separator\u2029.']
GAPS = [0, 1, 7, 49, 50, 51, 99, 100, 101, 500, 4999, 5000, 999949, 999950, 999962, 999999, 1000000, 1000001, 2500000, 123456]
GAPS_DY = [0, 125000, 250000, 875000, 1000000, 1125000, 2000000]


class Obj:
    __slots__ = ('id', 'type', 'alive', 'gen')

    def __init__(self, i, t, gen):
        self.id, self.type, self.alive, self.gen = i, t, True, gen


class ConnGen:
    """one connection's bookkeeping"""

    def __init__(self, rnd, tag, server_side, proto, kinds, amb, ifaces=None):
        self.r, self.tag, self.server_side = rnd, tag, server_side
        self.proto, self.kinds, self.amb = proto, kinds, amb
        self.objs = {1: [Obj(1, 'wl_display', 0)]}
        self.started = False
        self.next_client = 2
        self.next_server = SRV0
        self.globals = []          # (name number, iface)
        self.pool = ifaces or [i for i in proto if i not in ('fake_enums', 'wl_display', 'wl_registry')]
        self.freed = []            # client ids deleted (reusable)
        self.maxgen = {}
        self.titles = 0.0          # rate of messages that give the connection a title / application id
        self.unres = 0.0           # rate of messages about objects the log never saw being created (capture started mid-session)
        self.srv = 0.07            # rate of events that hand out a server-range id (again), through whatever parent can do so

    # ------------------------------------------------------------------
    def latest(self, i):
        return self.objs[i][-1]

    def sent(self, iface, msg):
        """direction as seen in this log"""
        req = self.kinds.get(iface, {}).get(msg, 'request') == 'request'
        return req != self.server_side

    def live(self, pred=lambda o: True):
        return [l[-1] for l in self.objs.values() if l[-1].alive and pred(l[-1])]

    def anyobj(self, pred=lambda o: True):
        return [l[-1] for l in self.objs.values() if pred(l[-1])]

    def fresh_id(self, by_server, prefer_reuse=0.5):
        r = self.r
        if by_server:
            used = [i for i in self.objs if i < 0]
            if used and r.random() < 0.6:
                return r.choice(used)        # server-range ids are reused freely (even while alive)
            i = self.next_server
            self.next_server += 1
            return i
        if self.freed and r.random() < prefer_reuse:
            i = r.choice(self.freed)
            self.freed.remove(i)
            return i
        i = self.next_client
        self.next_client += r.choice([1, 1, 1, 2])
        return i

    def create(self, i, t):
        l = self.objs.setdefault(i, [])
        if l and l[-1].alive:
            l[-1].alive = False
        o = Obj(i, t, len(l))
        l.append(o)
        return o

    def value_for(self, iface, msg, k, a):
        r = self.r
        ty = a['type']
        if ty in ('int', 'uint'):
            if a['ename']:
                ei = a['eiface'] or iface
                e = self.proto.get(ei, {}).get('enums', {}).get(a['ename'])
                if e and e['entries']:
                    vals = [x['value'] for x in e['entries']]
                    c = r.random()
                    if c < 0.5:
                        v = r.choice(vals)
                    elif c < 0.75:
                        v = 0
                        for x in r.sample(vals, min(len(vals), r.randint(1, 3))):
                            v |= x
                    elif c < 0.85:
                        v = 0
                    else:
                        v = max(vals) + r.choice([1, 2, 1000])
                    if ty == 'int' or v < 2 ** 31:
                        return {'k': 'int', 'v': min(v, 2 ** 31 - 1)}
            v = r.choice([0, 1, 2, 5, 7, 12, 64, 255, 1024, 65536, 2 ** 31 - 1, r.randint(0, 100000)])
            if ty == 'int' and r.random() < 0.3:
                v = -v if v < 2 ** 31 - 1 else -2 ** 31
            return {'k': 'int', 'v': v}
        if ty == 'fixed':
            return {'k': 'float', 'raw': r.choice([0, 256, 384, -128, 64, 100 * 256 + 192, -7 * 256 - 64, 4, r.randint(-2000, 2000) * 4])}
        if ty == 'string':
            return {'k': 'str', 's': r.choice(TEXTS)}
        if ty == 'fd':
            return {'k': 'fd', 'v': r.randint(3, 40)}
        if ty == 'array':
            return {'k': 'array', 'n': r.choice([0, 4, 16, 24, 3, 13])}
        return None

    def msg_on(self, target, msg, t, allow_create=True):
        """a well-formed message event on object `target`; None if an argument cannot be supplied"""
        iface = target.type
        desc = self.proto[iface]['msgs'][msg]
        by_server = self.kinds[iface][msg] == 'event'
        args = []
        created = []
        for k, a in enumerate(desc):
            ty = a['type']
            if ty == 'new_id':
                if not a['iface'] or a['iface'] not in self.proto or not allow_create:
                    return None
                i = self.fresh_id(by_server)
                if i in [c[0] for c in created]:
                    return None
                created.append((i, a['iface']))
                args.append({'k': 'new', 'type': a['iface'], 'id': i})
            elif ty == 'object':
                cands = self.anyobj(lambda o: (not a['iface'] or o.type == a['iface']) and o.id not in [c[0] for c in created])
                if cands and self.r.random() < 0.8:
                    o = self.r.choice(cands)
                    args.append({'k': 'obj', 'type': o.type, 'id': o.id})
                else:
                    # (the log line says `nil` and nothing else; a closure carries the declared interface: `decl`)
                    args.append({'k': 'nil', 'type': '', 'decl': a['iface'] or ''})
            else:
                v = self.value_for(iface, msg, k, a)
                if v is None:
                    return None
                args.append(v)
        for i, ty in created:
            self.create(i, ty)
        return {'e': 'msg', 'tag': self.tag, 't': t,
                'm': {'ttype': iface, 'tid': target.id, 'name': msg, 'sent': self.sent(iface, msg), 'args': args}}

    def custom(self, t, title=False):
        r = self.r
        mine = self.anyobj(lambda o: o.type in ('zz_custom_v1', 'zz_child_v1'))
        if not mine or r.random() < 0.2:
            reg = r.choice(self.live(lambda o: o.type == 'wl_registry'))
            i = self.fresh_id(False)
            self.create(i, 'zz_custom_v1')
            return {'e': 'msg', 'tag': self.tag, 't': t,
                    'm': {'ttype': 'wl_registry', 'tid': reg.id, 'name': 'bind', 'sent': not self.server_side,
                          'args': [{'k': 'int', 'v': 77}, {'k': 'str', 's': 'zz_custom_v1'}, {'k': 'int', 'v': 1},
                                   {'k': 'new', 'type': '', 'id': i}]}}
        o = r.choice(mine)
        c = r.random()
        sent = r.random() < 0.5
        if c < 0.25 or title:
            # what a client says about itself: the connection's title and application id
            name = r.choice(['set_app_id', 'set_app_id', 'set_title', 'get_layer_surface'])
            # (application ids that look like connection names included: `connection B` means the connection called B)
            txt = r.choice(['org.gnome.gedit', 'firefox', 'com.example.App.', 'Untitled 1', '', 'a.b', 'kitty', 'weston-terminal', '.hidden', 'ALLCAPS',
                            'b', 'B', 'A', 'c', 'Breaking news\u2028Live updates', 'form\x0cfeed'])
            if name == 'get_layer_surface':
                args = [{'k': 'nil', 'type': ''}, {'k': 'nil', 'type': ''}, {'k': 'nil', 'type': ''}, {'k': 'int', 'v': 2}, {'k': 'str', 's': txt}]
            elif r.random() < 0.1:
                args = [{'k': 'int', 'v': 5}]
            else:
                args = [{'k': 'str', 's': txt}]
            return {'e': 'msg', 'tag': self.tag, 't': t,
                    'm': {'ttype': o.type, 'tid': o.id, 'name': name, 'sent': sent, 'args': args}}
        if c < 0.45:
            # looks like the display's delete_id, but is not: no object is destroyed by it
            victims = self.anyobj(lambda x: x.id > 1)
            args = [{'k': 'int', 'v': r.choice(victims).id if victims else 3}]
            name = 'delete_id'
        elif c < 0.55 and o.alive:
            i = self.fresh_id(not sent if self.server_side else False)
            self.create(i, 'zz_child_v1')
            args = [{'k': 'new', 'type': 'zz_child_v1', 'id': i}, {'k': 'int', 'v': 3}]
            name = 'make'
        elif c < 0.8:
            others = self.anyobj()
            x = r.choice(others)
            args = [{'k': 'obj', 'type': x.type, 'id': x.id}, {'k': 'nil', 'type': ''}, {'k': 'str', 's': r.choice(TEXTS)}]
            name = r.choice(['frob', 'new', 'destroyed'])
        else:
            args = [{'k': 'float', 'raw': 640}, {'k': 'fd', 'v': 9}, {'k': 'array', 'n': 8}]
            name = 'sync'
        return {'e': 'msg', 'tag': self.tag, 't': t,
                'm': {'ttype': o.type, 'tid': o.id, 'name': name, 'sent': sent, 'args': args}}

    def handout(self, t):
        """an event that creates an object with a server-range id - most often an id already handed out, by another parent
        and / or for another interface (libwayland re-uses such ids without any delete_id)"""
        r = self.r
        parents = []
        for o in self.live(lambda o: o.type in self.proto or o.type == 'zz_custom_v1'):
            if o.type == 'zz_custom_v1':
                parents.append((o, None))
                continue
            for m, desc in self.proto[o.type]['msgs'].items():
                if self.kinds[o.type].get(m) == 'event' and m in self.usable_msgs(o.type) \
                        and any(a['type'] == 'new_id' and a['iface'] in self.proto for a in desc):
                    parents.append((o, m))
        if not parents:
            return None
        o, m = r.choice(parents)
        if m is not None:
            return self.msg_on(o, m, t)
        i = self.fresh_id(True)
        ty = r.choice(['zz_child_v1', 'zz_child_v1', 'zz_other_v1'])
        self.create(i, ty)
        return {'e': 'msg', 'tag': self.tag, 't': t,
                'm': {'ttype': o.type, 'tid': o.id, 'name': 'make', 'sent': self.server_side,
                      'args': [{'k': 'new', 'type': ty, 'id': i}, {'k': 'int', 'v': 3}]}}

    def stray(self, t):
        """a message on / about an object whose creation is not in the log: recorded and shown all the same, as unresolved"""
        r = self.r
        i = r.choice([901, 902, 950, 4000])
        c = r.random()
        if c < 0.5:
            name = r.choice(['commit', 'damage'])
            return {'e': 'msg', 'tag': self.tag, 't': t,
                    'm': {'ttype': 'wl_surface', 'tid': i, 'name': name, 'sent': not self.server_side,
                          'args': [] if name == 'commit' else [{'k': 'int', 'v': 0}, {'k': 'int', 'v': 0}, {'k': 'int', 'v': 10}, {'k': 'int', 'v': 10}]}}
        if c < 0.75:
            # a known object of another type than the line says (a stale id): unresolved as well
            known = self.anyobj(lambda o: o.id > 1 and o.type != 'wl_buffer')
            if known:
                o = r.choice(known)
                return {'e': 'msg', 'tag': self.tag, 't': t,
                        'm': {'ttype': 'wl_buffer', 'tid': o.id, 'name': 'release', 'sent': self.server_side, 'args': []}}
        # an unknown object as an argument of a message on the display
        return {'e': 'msg', 'tag': self.tag, 't': t,
                'm': {'ttype': 'wl_display', 'tid': 1, 'name': 'error', 'sent': self.server_side,
                      'args': [{'k': 'obj', 'type': 'wl_surface', 'id': i}, {'k': 'int', 'v': 1}, {'k': 'str', 's': 'stale'}]}}

    def usable_msgs(self, iface):
        return [m for m in self.proto[iface]['msgs'] if (iface + '.' + m) not in self.amb]

    def next(self, t):
        """the next well-formed message event of this connection"""
        r = self.r
        disp = self.objs[1][0]
        if not self.started:
            self.started = True
            if r.random() < 0.85:
                o = self.create(2 if 2 not in self.objs else self.fresh_id(False), 'wl_registry')
                self.next_client = max(self.next_client, 3)
                return {'e': 'msg', 'tag': self.tag, 't': t,
                        'm': {'ttype': 'wl_display', 'tid': 1, 'name': 'get_registry', 'sent': not self.server_side,
                              'args': [{'k': 'new', 'type': 'wl_registry', 'id': o.id}]}}
        if self.unres and r.random() < self.unres:
            return self.stray(t)
        if self.srv and r.random() < self.srv:
            ev = self.handout(t)
            if ev is not None:
                return ev
        if self.titles and r.random() < self.titles and self.live(lambda o: o.type == 'wl_registry'):
            ev = self.custom(t, title=True)
            if ev is not None:
                return ev
        for _ in range(50):
            c = r.random()
            regs = self.live(lambda o: o.type == 'wl_registry')
            if c < 0.10 and regs:
                # a global is announced
                iface = r.choice(self.pool)
                n = len(self.globals) + 1
                self.globals.append((n, iface))
                reg = r.choice(regs)
                return {'e': 'msg', 'tag': self.tag, 't': t,
                        'm': {'ttype': 'wl_registry', 'tid': reg.id, 'name': 'global', 'sent': self.server_side,
                              'args': [{'k': 'int', 'v': n}, {'k': 'str', 's': iface},
                                       {'k': 'int', 'v': self.proto[iface]['version']}]}}
            if c < 0.22 and regs and self.globals:
                n, iface = r.choice(self.globals)
                reg = r.choice(regs)
                i = self.fresh_id(False)
                self.create(i, iface)
                return {'e': 'msg', 'tag': self.tag, 't': t,
                        'm': {'ttype': 'wl_registry', 'tid': reg.id, 'name': 'bind', 'sent': not self.server_side,
                              'args': [{'k': 'int', 'v': n}, {'k': 'str', 's': iface}, {'k': 'int', 'v': 1},
                                       {'k': 'new', 'type': '', 'id': i}]}}
            if c < 0.36:
                # delete_id of a live client-range object (never the display)
                cands = self.live(lambda o: o.id > 1)
                if cands:
                    o = r.choice(cands)
                    o.alive = False
                    self.freed.append(o.id)
                    return {'e': 'msg', 'tag': self.tag, 't': t,
                            'm': {'ttype': 'wl_display', 'tid': 1, 'name': 'delete_id', 'sent': self.server_side,
                                  'args': [{'k': 'int', 'v': o.id}]}}
                continue
            if c < 0.385:
                # another registry later in the session: on any free client id - id 2 included once its first holder is gone
                free2 = 2 in self.objs and not self.latest(2).alive
                i = 2 if (free2 and r.random() < 0.7) else self.fresh_id(False)
                if i in self.freed:
                    self.freed.remove(i)
                self.create(i, 'wl_registry')
                return {'e': 'msg', 'tag': self.tag, 't': t,
                        'm': {'ttype': 'wl_display', 'tid': 1, 'name': 'get_registry', 'sent': not self.server_side,
                              'args': [{'k': 'new', 'type': 'wl_registry', 'id': i}]}}
            if c < 0.42:
                i = self.fresh_id(False)
                self.create(i, 'wl_callback')
                return {'e': 'msg', 'tag': self.tag, 't': t,
                        'm': {'ttype': 'wl_display', 'tid': 1, 'name': 'sync', 'sent': not self.server_side,
                              'args': [{'k': 'new', 'type': 'wl_callback', 'id': i}]}}
            if c < 0.50 and regs and self.r.random() < 0.5:
                # an interface the tool has no description for: shown undecorated, creates and mentions objects all the same
                ev = self.custom(t)
                if ev is not None:
                    return ev
            # a message on some object (alive, or mentioned after its destruction)
            cands = self.anyobj(lambda o: o.type in self.proto and self.proto[o.type]['msgs'] and o.type != 'wl_registry')
            if not cands:
                continue
            o = r.choice(cands)
            msgs = self.usable_msgs(o.type)
            if o.id == 1:
                msgs = [m for m in msgs if m not in ('delete_id', 'get_registry', 'sync')]
            if not msgs:
                continue
            ev = self.msg_on(o, r.choice(msgs), t, allow_create=o.alive)
            if ev is not None:
                return ev
        # fall back to something always possible
        i = self.fresh_id(False)
        self.create(i, 'wl_callback')
        return {'e': 'msg', 'tag': self.tag, 't': t,
                'm': {'ttype': 'wl_display', 'tid': 1, 'name': 'sync', 'sent': not self.server_side,
                      'args': [{'k': 'new', 'type': 'wl_callback', 'id': i}]}}


CORE_IFACES = ['wl_compositor', 'wl_surface', 'wl_region', 'wl_shm', 'wl_shm_pool', 'wl_buffer', 'wl_seat', 'wl_pointer',
               'wl_keyboard', 'wl_touch', 'wl_data_device_manager', 'wl_data_device', 'wl_data_offer', 'wl_data_source',
               'wl_output', 'wl_subcompositor', 'wl_subsurface', 'xdg_wm_base', 'xdg_surface', 'xdg_toplevel',
               'xdg_positioner', 'xdg_popup', 'wl_callback']


class SessionGen:
    def __init__(self, seed, nconn=(1, 3), nmsg=(10, 40), junk=0.1, cmds=0.0, core=True, dy=False, tags=True,
                 matcher_depth=1, show=None, with_init_filter=0.0, unresolved=0.0, zero_start=0.15, titles=0.0, back=0.0):
        self.r = random.Random(seed)
        d = protoextract.load()
        self.proto, self.kinds, self.amb = d['proto'], d['kinds'], set(d['amb_msgs'])
        self.opt = dict(nconn=nconn, nmsg=nmsg, junk=junk, cmds=cmds, core=core, dy=dy, tags=tags,
                        matcher_depth=matcher_depth, show=show, with_init_filter=with_init_filter, unresolved=unresolved,
                        zero_start=zero_start, titles=titles, back=back)

    def session(self):
        r, o = self.r, self.opt
        nconn = r.randint(*o['nconn'])
        if o['tags']:
            tags = r.sample(['1', '2', '3', '7', '12', 'abc'], nconn) if nconn > 1 or r.random() < 0.5 else ['']
            if nconn > 1 and r.random() < 0.3:
                tags[r.randrange(nconn)] = ''
        else:
            tags = ['']
            nconn = 1
        pool = [i for i in CORE_IFACES if i in self.proto] if (o['core'] is True or (o['core'] is None and r.random() < 0.6)) else None
        conns = [ConnGen(r, tg, r.random() < 0.3, self.proto, self.kinds, self.amb, pool) for tg in tags]
        for c in conns:
            c.unres = o['unresolved']
            c.titles = o['titles']
        n = r.randint(*o['nmsg'])
        t = r.choice([0, 5, 770203519, 1999000000]) if not o['dy'] else r.choice([0, 125000 * 8, 125000 * 12345])
        events = []
        mg = MatcherGen(r, o['matcher_depth'])
        weights = [r.random() + 0.2 for _ in conns]
        zero = r.random() < o['zero_start']      # a log whose first time stamp is exactly 0.000
        if zero:
            t = 0
        for k in range(n):
            if not (zero and k == 0):
                t += r.choice(GAPS_DY if o['dy'] else GAPS)
                if o['back'] and r.random() < o['back']:
                    # log times that step back (output of several threads or processes merged out of order), also to before
                    # the first message's time: the displayed time is then negative
                    t = max(0, t - r.choice([125000, 250000, 1000000, 1500000] if o['dy'] else [1, 400, 5000, 1000000, 1500000]))
            if t > 2100000000:
                t = 2100000000
            if r.random() < o['junk']:
                events.append({'in': {'e': 'junk', 'text': r.choice(CHATTER)}})
            c = r.choices(conns, weights)[0]
            ev = c.next(t)
            events.append({'in': ev})
            mg.learn(ev, conns)
            if r.random() < o['cmds']:
                events.append({'in': mg.command(len(conns))})
                while mg.__dict__.get('queue') and mg.queue[0].get('_now'):
                    events.append({'in': mg.command(len(conns))})
        if r.random() < 0.9:
            events.append({'in': {'e': 'eof'}})
            for _ in range(r.randint(0, 3) if o['cmds'] > 0 else 0):
                events.append({'in': mg.command(len(conns))})
        init = {'show': (r.random() < 0.8) if o['show'] is None else o['show'], 'hasf': False, 'hasb': False}
        if r.random() < o['with_init_filter']:
            init['hasf'] = True
            init['f'] = mg.top() if r.random() < 0.8 else mrender.pat_full()      # (`*.*`: no restriction, spelled otherwise)
        return {'init': init, 'events': events}


# ---------------------------------------------------------------------------
class MatcherGen:
    """matcher trees over the vocabulary of the session generated so far"""

    def __init__(self, rnd, depth=1):
        self.r, self.depth = rnd, depth
        self.types = ['wl_surface', 'wl_display']
        self.names = ['commit', 'delete_id', 'new', 'destroyed']
        self.ids = [1, 2, 3]
        self.argnames = ['id', 'x', 'serial']
        self.labels = ['pressed', 'left']
        self.ints = [0, 1, 2]
        self.strs = ['hello']
        self.raws = [0, 384]
        self.appids = []
        self.nconn = 1

    def learn(self, ev, conns):
        m = ev['m']
        proto = protoextract.load()['proto']
        self._add(self.types, m['ttype'])
        self._add(self.names, m['name'])
        if m['name'] == 'set_app_id' and m['args'] and m['args'][0]['k'] == 'str' and m['args'][0]['s'].isascii() and m['args'][0]['s']:
            self._add(self.appids, m['args'][0]['s'])
        self._add(self.ids, m['tid'])
        desc = proto.get(m['ttype'], {}).get('msgs', {}).get(m['name'], [])
        for k, a in enumerate(m['args']):
            if k < len(desc) and not (m['ttype'] == 'wl_registry' and m['name'] == 'bind'):
                self._add(self.argnames, desc[k]['name'])
                if desc[k]['ename']:
                    e = proto.get(desc[k]['eiface'] or m['ttype'], {}).get('enums', {}).get(desc[k]['ename'])
                    if e:
                        for x in e['entries'][:4]:
                            self._add(self.labels, x['name'])
                if desc[k]['iface']:
                    self._add(self.types, desc[k]['iface'])
            if a['k'] in ('obj', 'new'):
                self._add(self.ids, a['id'])
                if a['type']:
                    self._add(self.types, a['type'])
            elif a['k'] == 'int':
                self._add(self.ints, a['v'])
            elif a['k'] == 'str' and not any(c in a['s'] for c in '"()[]'):   # brackets inside matcher strings are not in the documented grammar
                self._add(self.strs, a['s'])
            elif a['k'] == 'float':
                self._add(self.raws, a['raw'])
        self.nconn = len(conns)

    def _add(self, lst, v, cap=40):
        if v not in lst:
            lst.append(v)
            if len(lst) > cap:
                lst.pop(self.r.randrange(len(lst)))

    def word(self, pool):
        r = self.r
        w = r.choice(pool)
        c = r.random()
        if c < 0.6 or not w:
            return W(w)
        if c < 0.75:
            return W(w[:r.randint(0, len(w))] + '*')
        if c < 0.85:
            return W('*' + w[r.randint(0, len(w)):])
        if c < 0.90 and len(w) > 2:
            i = r.randint(1, len(w) - 1)
            return W(w[:i - 1] + '*' + w[i:])
        if c < 0.96 and len(w) > 3:
            # text on both sides of the `*` that overlaps inside the word: wl_s*surface must not select wl_surface
            i = r.randint(1, len(w) - 2)
            j = r.randint(i + 1, len(w) - 1)
            return W(w[:j] + '*' + w[i:])
        return W('*')

    def text(self, pool, depth):
        r = self.r
        k = r.random()
        if k < 0.12:
            return ANY
        if k < (0.85 if depth < 2 else 0.65) or depth <= 0:
            return self.word(pool)
        return {'k': 'list', 'pos': [self.text(pool, depth - 1) for _ in range(r.randint(0, 2))],
                'neg': [self.text(pool, depth - 1) for _ in range(r.randint(0, 1))]}

    def obj(self, depth, allow_nil=True):
        r = self.r
        k = r.random()
        if k < 0.10:
            return ANY
        if k < 0.40:
            return {'k': 'type', 't': self.word(self.types)}
        if k < 0.60:
            return {'k': 'id', 'id': r.choice(self.ids)}
        if k < 0.82:
            return {'k': 'idgen', 'id': r.choice(self.ids), 'gen': r.choice([0, 0, 1, 1, 2, 3, 27])}
        if k < 0.86 and allow_nil:
            return {'k': 'nil'}
        if depth <= 0:
            return {'k': 'id', 'id': r.choice(self.ids)}
        return {'k': 'list', 'pos': [self.obj(depth - 1, allow_nil) for _ in range(r.randint(0, 2))],
                'neg': [self.obj(depth - 1, allow_nil) for _ in range(r.randint(0, 1))]}

    def val(self, depth, top=True):
        r = self.r
        k = r.random()
        if not top and k < 0.1:
            k = 0.2
        if k < 0.08:
            return ANY
        if k < 0.30:
            return {'k': 'int', 'v': r.choice(self.ints)}
        if k < 0.38:
            return {'k': 'float', 'raw': r.choice(self.raws)}
        if k < 0.48:
            return {'k': 'str', 's': r.choice(self.strs)}
        if k < 0.66:
            w = self.word(self.labels + self.types[:6])
            while w['p'] == ['*']:      # a value `*` is "any": written as such, and never as a vacuous item
                w = self.word(self.labels + self.types[:6])
            return {'k': 'word', 't': w}
        if k < 0.88:
            o = self.obj(0)
            while o['k'] in ('any', 'type'):
                o = self.obj(0)
            return {'k': 'obj', 'o': o}
        if depth <= 0:
            return {'k': 'int', 'v': r.choice(self.ints)}
        return {'k': 'list', 'pos': [self.val(depth - 1, False) for _ in range(r.randint(1, 2))],
                'neg': [self.val(depth - 1, False) for _ in range(r.randint(0, 1))]}

    def arg(self, depth):
        r = self.r
        if depth > 0 and r.random() < 0.2:
            return {'k': 'list', 'pos': [self.arg(depth - 1) for _ in range(r.randint(1, 2))],
                    'neg': [self.arg(depth - 1) for _ in range(r.randint(0, 1))]}
        hasname = r.random() < 0.5
        n = self.text(self.argnames, 0) if hasname else ANY
        v = self.val(depth)
        # a vacuous item (any name and any value) is not settled by the documentation: not generated
        if (not hasname or n['k'] == 'any' or n == W('*')) and v['k'] == 'any':
            v = {'k': 'int', 'v': r.choice(self.ints)}
        return {'k': 'arg', 'hasname': hasname, 'name': n, 'val': v}

    def args(self, depth):
        r = self.r
        if r.random() < 0.45:
            return {'k': 'noargs'}
        return {'k': 'args', 'pos': [self.arg(depth) for _ in range(r.randint(0, 2))],
                'neg': [self.arg(depth) for _ in range(r.randint(0, 1))]}

    def conn(self):
        r = self.r
        names = [mrender.letters(i).upper() for i in range(max(1, self.nconn))] + ['Z']
        k = r.random()
        if k < 0.6:
            return ANY
        if k < 0.85:
            return W(r.choice(names))
        if k < 0.9:
            return W('*')
        return {'k': 'list', 'pos': [W(r.choice(names)) for _ in range(r.randint(0, 2))],
                'neg': [W(r.choice(names)) for _ in range(r.randint(0, 1))]}

    def pat(self, depth=None):
        r = self.r
        depth = self.depth if depth is None else depth
        if r.random() < 0.3:
            p = mrender.pat_bare(self.obj(depth), self.conn())
            if p['obj']['k'] == 'any' and p['conn']['k'] == 'any':
                p['obj'] = {'k': 'type', 't': self.word(self.types)}   # a literal `*` is generated on purpose elsewhere
            return p
        p = mrender.pat_full(self.obj(depth, allow_nil=False), self.text(self.names, depth), self.args(depth), self.conn())
        return p

    def top(self):
        r = self.r
        if r.random() < 0.5:
            return self.pat()
        pos = [self.pat() for _ in range(r.randint(0, 2))]
        neg = [self.pat() for _ in range(r.randint(0, 1))]
        if not pos and not neg:
            return self.pat()
        return mrender.lst(pos, neg)

    BAD = ['wl_surface.[commit', '(x', 'a.b.c', 'a ! b ! c', 'wl_surface@5', 'wl$x', 'x(1)y', '[a', 'a: b: c', '.(x=1=2)',
           '3xyz$', '("a)']

    def spelling(self):
        r = self.r
        return [r.choice(['', ' ']), r.choice(['', '@']), []]

    def command(self, nconn):
        """a user command; matchers are sometimes ones given before in the session, in the same spelling (a text that means
        something different the second time - a cache, an object modified in place - is only seen when it comes back)"""
        import copy
        r = self.r
        queue = self.__dict__.setdefault('queue', [])
        if queue:
            ev = queue.pop(0)
            ev.pop('_now', None)
            return ev
        ev = self.command_fresh(nconn)
        if ev['c'] == 'list' and ev.get('ok') and not ev.get('caperr') and nconn >= 2 and r.random() < 0.3:
            # the same question asked of one connection and then of another, nothing happening in between
            a, b = r.sample(range(nconn), 2)
            for k in (a, b):
                queue.append({'e': 'cmd', 'c': 'conn', 'arg': mrender.letters(k).upper(), '_now': True})
                queue.append(dict(copy.deepcopy(ev), _now=True))
            if r.random() < 0.5:
                queue.append({'e': 'cmd', 'c': 'conn', 'arg': 'all', '_now': True})
                queue.append(dict(copy.deepcopy(ev), _now=True))
        if ev.get('ok') and 'ast' in ev and ev['ast'] not in (mrender.STAR, mrender.BANG):
            used = self.__dict__.setdefault('used', [])
            if used and r.random() < 0.3:
                ev['ast'], ev['spell'] = copy.deepcopy(r.choice(used))
            else:
                used.append((ev['ast'], ev.get('spell')))
            if ev['c'] in ('filter', 'break') and r.random() < 0.3:
                # given, taken back, given again in the same words: the second time it must mean what it meant the first time
                queue.append({'e': 'cmd', 'c': ev['c'], 'hasarg': True, 'ok': True, 'ast': r.choice([mrender.BANG, mrender.BANG, mrender.STAR]),
                              'spell': self.spelling()})
                queue.append(copy.deepcopy(ev))
        return ev

    def command_fresh(self, nconn):
        r = self.r
        k = r.random()
        if k < 0.22:
            c = r.random()
            which = r.choice(['filter', 'break'])
            if c < 0.1:
                return {'e': 'cmd', 'c': which, 'hasarg': False, 'ok': True}
            if c < 0.2:
                return {'e': 'cmd', 'c': which, 'hasarg': True, 'ok': False, 'bad': r.choice(self.BAD)}
            if c < 0.3:
                return {'e': 'cmd', 'c': which, 'hasarg': True, 'ok': True, 'ast': mrender.STAR, 'spell': self.spelling()}
            if c < 0.38:
                return {'e': 'cmd', 'c': which, 'hasarg': True, 'ok': True, 'ast': mrender.BANG, 'spell': self.spelling()}
            return {'e': 'cmd', 'c': which, 'hasarg': True, 'ok': True, 'ast': self.top(), 'spell': self.spelling()}
        if k < 0.62:
            ev = {'e': 'cmd', 'c': 'list', 'hasm': r.random() < 0.7, 'ok': True, 'cap': -1, 'caperr': False}
            if ev['hasm']:
                if r.random() < 0.08:
                    ev['ok'] = False
                    ev['bad'] = r.choice(self.BAD)
                else:
                    ev['ast'] = self.top() if r.random() < 0.85 else mrender.STAR
                    ev['spell'] = self.spelling()
            c = r.random()
            if c < 0.4:
                ev['cap'] = r.choice([0, 1, 1, 2, 3, 5, 99])
            elif c < 0.45:
                ev['caperr'] = True
                ev['captext'] = r.choice(['x', '1.5', '', 'two'])
            return ev
        if k < 0.85:
            c = r.random()
            if c < 0.2:
                return {'e': 'cmd', 'c': 'conn', 'arg': ''}
            if c < 0.4:
                return {'e': 'cmd', 'c': 'conn', 'arg': 'all'}
            if c < 0.5:
                if self.appids and r.random() < 0.7:
                    a = r.choice(self.appids)
                    return {'e': 'cmd', 'c': 'conn', 'arg': r.choice([a, a.upper(), a.lower(), a.swapcase()])}
                return {'e': 'cmd', 'c': 'conn', 'arg': r.choice(['Q', 'zz', '1', 'AAA', 'org.gnome.gedit', 'FIREFOX', 'firefox', 'a.b', 'kitty', 'a', 'b'])}
            return {'e': 'cmd', 'c': 'conn', 'arg': mrender.letters(r.randrange(max(1, nconn))).upper()}
        if k < 0.93:
            return {'e': 'cmd', 'c': 'other', 'text': r.choice(['help', 'help list', 'bogus', '', 'matcher wl_surface', 'h',
                                                                'wl help', 'help matcher', 'l!', 'matcher (', 'wlhelp', 'w'])}
        return {'e': 'cmd', 'c': r.choice(['resume', 'quit'])}
