"""P1 + P2: model-check a bounded configuration and turn its behaviours into sessions for the real tool."""
import json, os, re
import tlc


def model_check(rep, module, cfg, what, workers=16, timeout=3000, coverage=False, require_actions=(), override=None):
    """P1: properties on the model.  A violation here means the *specification* is wrong: machinery failure."""
    run_cfg = cfg
    tmp = None
    if override:
        text = open(os.path.join(tlc.SPEC, cfg)).read()
        for k, v in override.items():
            text, n = re.subn(r'^(\s*%s\s*)(=|<-).*$' % k, r'\g<1>= %s' % v, text, flags=re.M)
            if n != 1:
                raise tlc.MachineryError('cannot override %s in %s' % (k, cfg))
        tmp = os.path.join(tlc.SPEC, '_p1_%d_%s' % (os.getpid(), os.path.basename(cfg)))
        open(tmp, 'w').write(text)
        run_cfg = os.path.basename(tmp)
        what += ' ' + ', '.join('%s=%s' % kv for kv in override.items())
    try:
        r = tlc.run_tlc(module, cfg=run_cfg, workers=workers, coverage=coverage, timeout=timeout)
    finally:
        if tmp:
            os.unlink(tmp)
    if r.violated:
        raise tlc.MachineryError('the model itself violates %s under %s:\n%s' % (r.violated, cfg, '\n'.join(tlc.counterexample(r.stdout))[-3000:]))
    rep.add_tlc(r, 'P1 %s (%s)' % (what, cfg))
    # the configuration is not vacuous: the situations its properties talk about are reachable in it
    import witness
    witness.require(rep, module, cfg, override=override)
    for a in require_actions:
        d, t = r.coverage.get(a, (0, 0))
        if t == 0:
            raise tlc.MachineryError('vacuous run: action %s never taken under %s' % (a, cfg))
    return r


def behaviours(rep, module, cfg, what, timeout=3000, maximal=True, override=None):
    """P2 source: every transition of the bounded model as path + event; returns the (maximal) event sequences."""
    tmp = os.path.join(tlc.SPEC, '_emit_%d_%s' % (os.getpid(), os.path.basename(cfg)))
    text = open(os.path.join(tlc.SPEC, cfg)).read()
    text = re.sub(r'^(INVARIANT|PROPERTY) .*$', '', text, flags=re.M)
    for k, v in (override or {}).items():
        text, n = re.subn(r'^(\s*%s\s*)(=|<-).*$' % k, r'\g<1>= %s' % v, text, flags=re.M)
        if n != 1:
            raise tlc.MachineryError('cannot override %s in %s' % (k, cfg))
    text += '\nACTION_CONSTRAINT Emit\n'
    with open(tmp, 'w') as f:
        f.write(text)
    try:
        r = tlc.run_tlc(module, cfg=os.path.basename(tmp), workers=1, timeout=timeout)
    finally:
        os.unlink(tmp)
    rep.add_tlc(r, 'P2 behaviours of %s (%s)' % (what, cfg))
    seqs = []
    for (j,) in tlc.printed_tuples(r.stdout, 'EDGE'):
        e = json.loads(j)
        seqs.append(e['path'] + [e['ev']])
    if maximal:
        keys = [json.dumps(s, sort_keys=True) for s in seqs]
        prefixes = set()
        for s in seqs:
            prefixes.add(json.dumps(s[:-1], sort_keys=True))
        seqs = [s for s, k in zip(seqs, keys) if k not in prefixes]
    return seqs, r
