"""Write recorded sessions as a trace file and have TLC validate them against Session.

validate(traces) -> Verdict: per trace and step the aspects in which the tool's
observed behaviour differs from Session!Step (spec/TraceSession.tla), as
reported by TLC.  Which aspects matter for which property is the caller's
observation map (props/*.py); nothing is filtered here.
"""
import json, os, time
import tlc, protoextract

TMP = os.path.join(tlc.OUT, 'tmp')


def strings_in(x, acc):
    if isinstance(x, str):
        acc.add(x)
    elif isinstance(x, dict):
        for v in x.values():
            strings_in(v, acc)
    elif isinstance(x, (list, tuple)):
        for v in x:
            strings_in(v, acc)


def ifaces_in(traces):
    s = set()
    for tr in traces:
        for e in tr['events']:
            ev = e['in']
            if ev['e'] in ('msg', 'hit'):
                s.add(ev['m']['ttype'])
                for a in ev['m']['args']:
                    if a['k'] in ('obj', 'new') and a['type']:
                        s.add(a['type'])
                    if a['k'] == 'str':
                        s.add(a['s'])
    return s


class Verdict:
    def __init__(self):
        self.fails = []       # (trace index, step, [aspects])
        self.done = set()
        self.ntraces = 0
        self.nsteps = 0
        self.states = 0
        self.transitions = 0
        self.wall = 0.0
        self.file = None

    def failing(self, relevant=None):
        """[(trace, step, aspects)] restricted to aspects accepted by `relevant` (a predicate on the aspect name)"""
        out = []
        for t, l, asp in self.fails:
            a = [x for x in asp if relevant is None or relevant(x)]
            if a:
                out.append((t, l, a))
        return out


def clean(traces):
    """drop the harness's private keys"""
    def c(x):
        if isinstance(x, dict):
            if x.get('k') in ('info', 'error', 'text', 'crash', 'warning', 'errtext') and isinstance(x.get('text'), str) and len(x['text']) > 300:
                # free-form output is not compared by the specification; a tool gone wrong can print megabytes of it
                x = dict(x, text=x['text'][:300])
            return {k: c(v) for k, v in x.items() if not k.startswith('_') and k not in ('text_full',)}
        if isinstance(x, list):
            return [c(v) for v in x]
        if isinstance(x, int) and not isinstance(x, bool) and not -2 ** 31 < x < 2 ** 31:
            # TLC's integers have 32 bits: a number the tool got absurdly wrong is still a wrong number after clamping
            # (to +-1e9 rather than to the limit, so that a difference with another number does not overflow either)
            return 10 ** 9 if x > 0 else -10 ** 9
        return x
    return c(traces)


def validate_parallel(traces, name='session', jobs=8, chunk=60, spec=('TraceSession.tla', 'TraceSession.cfg')):
    """validate in several TLC processes; returns one merged Verdict (trace indexes global)"""
    from concurrent.futures import ThreadPoolExecutor
    if len(traces) <= chunk:
        return validate(traces, name=name, spec=spec)
    parts = [(i, traces[i:i + chunk]) for i in range(0, len(traces), chunk)]
    # fewer, larger parts than jobs make no sense: rebalance
    if len(parts) > jobs:
        size = (len(traces) + jobs - 1) // jobs
        size = min(max(size, chunk), 400)
        parts = [(i, traces[i:i + size]) for i in range(0, len(traces), size)]
    out = Verdict()
    with ThreadPoolExecutor(max_workers=jobs) as ex:
        results = list(ex.map(lambda p: (p[0], validate(p[1], name='%s-%d' % (name, p[0]), spec=spec)), parts))
    for off, v in results:
        out.fails += [(t + off, l, a) for t, l, a in v.fails]
        out.done |= {t + off for t in v.done}
        out.ntraces += v.ntraces
        out.nsteps += v.nsteps
        out.states += v.states
        out.transitions += v.transitions
        out.wall = max(out.wall, v.wall)
    return out


def validate(traces, name='session', keep=False, workers=1, spec=('TraceSession.tla', 'TraceSession.cfg')):
    os.makedirs(TMP, exist_ok=True)
    traces = clean(traces)
    pd = protoextract.load()
    proto = protoextract.subset(pd['proto'], ifaces_in(traces))
    if not proto:
        proto = protoextract.subset(pd['proto'], {'wl_display'})
    acc = set()
    strings_in(traces, acc)
    strings_in(proto, acc)
    for i in proto:
        acc.add(i)
        for mn in proto[i]['msgs']:
            acc.add(mn)
    acc.update(['new', 'destroyed', '(none)', 'INVALID ENUM VALUE', 'PARSED', 'unknown'])
    acc.discard('')
    data = {'dict': {s: list(s) for s in acc}, 'proto': proto, 'traces': traces}
    path = os.path.join(TMP, '%s-%d-%d.json' % (name, os.getpid(), int(time.time() * 1000) % 100000000))
    with open(path, 'w') as f:
        json.dump(data, f)
    v = Verdict()
    v.ntraces = len(traces)
    v.nsteps = sum(len(t['events']) for t in traces)
    try:
        r = tlc.run_tlc(spec[0], cfg=spec[1], env={'TRACE_FILE': path}, workers=workers)
    finally:
        if not keep:
            try:
                os.unlink(path)
            except OSError:
                pass
    v.file = path if keep else None
    v.states, v.transitions, v.wall = r.distinct, r.generated, r.wall
    for t in tlc.printed_tuples(r.stdout, 'FAIL'):
        v.fails.append((t[0], t[1], sorted(tlc.unset(t[2]))))
    v.expect = {}
    for t in tlc.printed_tuples(r.stdout, 'EXPECT'):
        v.expect[(t[0], t[1])] = (t[2], tlc.unset(t[3]))
    for t in tlc.printed_tuples(r.stdout, 'DONE'):
        v.done.add(t[0])
    if r.violated:
        raise tlc.MachineryError('TraceSession reported a violation it should only print: %s' % r.violated)
    if v.done != set(range(1, len(traces) + 1)):
        missing = sorted(set(range(1, len(traces) + 1)) - v.done)
        raise tlc.MachineryError('TLC did not reach the end of traces %s' % missing[:10])
    return v
