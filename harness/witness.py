"""Vacuity guard on the specification side: reachability witnesses.

MC_Session (and other MC modules) define state predicates Reach_X - situations the properties talk about (a re-used id, a
destroyed object with a lifespan, a message hidden by the filter, ...) - together with Never_X == ~Reach_X.  For every
configuration the table below lists the witnesses that must be reachable: TLC is run with `INVARIANT Never_X` and has to
report the invariant violated.  A witness that is not reached is a machinery failure (the configuration would make the
properties hold vacuously), never a property violation.
"""
import os, re
from concurrent.futures import ThreadPoolExecutor
import tlc

ALL = ['Reuse', 'ReuseAfterDelete', 'ServerReuse', 'Destroyed', 'OldMention', 'DeadMention', 'Bind', 'LateRegistry', 'ServerSide',
       'TwoConns', 'Interleaved', 'SameIdTwice', 'EofTwo', 'CmdAfterEof', 'FilterSplits', 'FilterMid', 'SelHides',
       'GapOverSecond', 'GapExactSecond', 'ListCapCuts', 'JunkBetween', 'Accumulated']
GDB = ['Halted', 'NotHalted', 'HaltSelOther', 'StayHalted', 'Resumed', 'Quit', 'Closed', 'AddrReuse', 'DestroyNever', 'DestroyClosed',
       'OtherThread', 'TwoOpen', 'BreakChanged']
TABLES = ['Reuse', 'ReuseAfterDelete', 'ServerReuse', 'Destroyed', 'OldMention', 'DeadMention', 'Bind', 'LateRegistry', 'ServerSide']
# what each configuration is there for (a witness listed here and not reachable = the configuration is vacuous for its property)
REQUIRED = {
    'MC_Session_tables.cfg': TABLES, 'MC_Session_tables_deep.cfg': TABLES, 'MC_Session_life.cfg': TABLES + ['GapOverSecond'],
    'MC_Session_conns.cfg': ['TwoConns', 'Interleaved', 'SameIdTwice', 'EofTwo', 'Reuse', 'ServerSide'],
    'MC_Session_live.cfg': ['FilterSplits', 'FilterMid', 'SelHides', 'TwoConns', 'Accumulated', 'Interleaved'],
    'MC_Session_lines.cfg': ['JunkBetween', 'EofTwo', 'TwoConns', 'Interleaved'],
    'MC_Session_lines_sup.cfg': ['JunkBetween', 'EofTwo', 'TwoConns', 'Interleaved'],
    'MC_Session_list.cfg': ['ListCapCuts', 'SelHides', 'CmdAfterEof', 'FilterSplits', 'TwoConns'],
    'MC_Session_join.cfg': ['Accumulated', 'FilterMid', 'FilterSplits'],
    'MC_Session_time.cfg': ['GapOverSecond', 'GapExactSecond', 'FilterSplits'],
    'MC_Gdb.cfg': GDB,
    'MC_RunMode_A.cfg': ['ErrClosedEarly', 'ExitBeforeRead', 'StatusBeforeEof', 'MidLineSplit', 'Returned99'],
    'MC_RunMode_B.cfg': ['ErrClosedEarly', 'ExitBeforeRead', 'Unterminated', 'MidLineSplit'],
}


def _one(module, cfg, name, override, timeout):
    text = open(os.path.join(tlc.SPEC, cfg)).read()
    # no VIEW: the witnesses may talk about the input so far and the last event, which the view of the model hides
    text = re.sub(r'^(INVARIANT|PROPERTY|VIEW) .*$', '', text, flags=re.M)
    for k, v in (override or {}).items():
        text, n = re.subn(r'^(\s*%s\s*)(=|<-).*$' % k, r'\g<1>= %s' % v, text, flags=re.M)
        if n != 1:
            raise tlc.MachineryError('cannot override %s in %s' % (k, cfg))
    text += '\nINVARIANT Never_%s\n' % name
    tmp = '_w_%d_%s_%s' % (os.getpid(), name, os.path.basename(cfg))
    with open(os.path.join(tlc.SPEC, tmp), 'w') as f:
        f.write(text)
    try:
        r = tlc.run_tlc(module, cfg=tmp, workers=2, timeout=timeout)
    finally:
        os.unlink(os.path.join(tlc.SPEC, tmp))
    return name, bool(r.violated), r


def reached(module, cfg, names=ALL, override=None, timeout=900):
    """-> {name: reached?}"""
    with ThreadPoolExecutor(max_workers=6) as ex:
        res = list(ex.map(lambda n: _one(module, cfg, n, override, timeout), names))
    return {n: v for n, v, _ in res}


def require(rep, module, cfg, names=None, override=None):
    names = names if names is not None else REQUIRED.get(cfg, [])
    if not names:
        return
    got = reached(module, cfg, names, override)
    missing = [n for n in names if not got[n]]
    if missing:
        raise tlc.MachineryError('vacuous configuration %s: the situations %s are not reachable' % (cfg, missing))
    rep.extra.setdefault('witnesses_reached', {})[cfg + (' ' + ','.join('%s=%s' % kv for kv in override.items()) if override else '')] = sorted(names)


if __name__ == '__main__':
    import sys, json
    cfgs = sys.argv[1:] or sorted(f for f in os.listdir(tlc.SPEC) if f.startswith('MC_Session_') and f.endswith('.cfg'))
    for c in cfgs:
        g = reached('MC_Gdb.tla', c, GDB) if c.startswith('MC_Gdb') else reached('MC_Session.tla', c)
        print(c, json.dumps(sorted(n for n in g if g[n])))
        print('   not reached:', sorted(n for n in g if not g[n]))
