"""Common shape of the properties decided on Session traces (P1 model, P2 replay, P3 recorded executions)."""
import json
import framework, sessionprop, mcreplay, gen
from props.common import relevant

ASSUME = ['the printer model (harness/printer.py) renders lines as libwayland 1.23.1 / pre-1.22 do',
          'TLC, its JSON module, and the projection / lexer code are trusted',
          'bounded: TLC covers all behaviours of the stated constants only; beyond them coverage is by seeded sampling']
NOFILTER = {'show': True, 'hasf': False, 'hasb': False}


def as_trace(seq, init=None):
    return {'init': dict(init or NOFILTER), 'events': [{'in': e} for e in seq]}


def model_sessions(ctx, rep, cfg, what, sample, override=None, init=None, renders=None):
    seqs, r = mcreplay.behaviours(rep, 'MC_Session.tla', cfg, what, override=override)
    total = len(seqs)
    if len(seqs) > sample:
        seqs = ctx.rnd.sample(seqs, sample)
    rep.extra.setdefault('model_behaviours', {})[cfg] = {'maximal_behaviours': total, 'replayed': len(seqs)}
    renders = renders or [{'dialect': 'old'}, {'dialect': 'new'}]
    for k, s in enumerate(seqs):
        yield as_trace(s, init), dict(renders[k % len(renders)]), 'model:' + cfg


def rich_sessions(ctx, salt, n, **kw):
    """Sessions from one common, rich mix - all shipped interfaces, several connections, chatter, messages about objects the log
    never saw being created, messages by which a client names itself (empty texts included), logs starting at 0.000 - so that
    a kind of input added for one property is seen by the checks of all the others."""
    for k in range(n):
        opts = dict(nconn=(1, 3), nmsg=(15, 45), junk=0.1, cmds=0.0, core=None, unresolved=0.05, titles=0.12, zero_start=0.2,
                    matcher_depth=k % 3, back=(0.06 if k % 2 else 0.0))
        opts.update(kw)
        g = gen.SessionGen(ctx.seed * salt + 7 * k + 3, **opts)
        yield g.session(), {'dialect': ctx.rnd.choice(['old', 'new']), 'mark': ctx.rnd.choice(['.', ','])}, 'rich'


def run_property(ctx, prop, rule, p1_cfgs, session_iter, level='model_checking', classify=None):
    rep = framework.Report(ctx, level)
    rep.rule = rule
    for item in p1_cfgs:
        cfg, what = item[0], item[1]
        override = item[2] if len(item) > 2 and ctx.quick else None      # (cfg, what, quick-tier override)
        mcreplay.model_check(rep, 'MC_Session.tla', cfg, what, override=override)
    sessionprop.run_sessions(ctx, rep, session_iter(rep), relevant(prop), classify=classify)
    rep.assumptions = list(ASSUME)
    return rep


def process_batch(ctx, rep, owned, n, salt, cmds_after=6, **kw):
    """the property at the level of the real process (file mode): generated sessions - lines, end of input, commands typed at
    the prompt - run by main.py as a subprocess and compared line for line with the in-process run of the same session
    (which TLC validates against Session).  `owned`: the kinds of output line this property speaks about; a difference is
    reported when the first differing line is of such a kind."""
    import e2
    for k in range(n):
        opts = dict(nconn=(1, 3), nmsg=(10, 30), junk=0.1, cmds=0.0, core=None, unresolved=0.05, titles=0.1, with_init_filter=0.3)
        opts.update(kw)
        g = gen.SessionGen(ctx.seed * salt + k, **opts)
        s = g.session()
        mg = gen.MatcherGen(g.r, 1)
        for e in s['events']:
            if e['in']['e'] == 'msg':
                mg.learn(e['in'], [1, 2, 3])
        s['events'] = [e for e in s['events'] if e['in']['e'] in ('msg', 'junk')] + [{'in': {'e': 'eof'}}]
        for _ in range(cmds_after):
            c = mg.command(3)
            if c['c'] in ('quit', 'resume'):
                continue
            s['events'].append({'in': c})
        # (a matcher text with a character a command line might take for its own: `;`)
        import mrender
        s['events'].append({'in': {'e': 'cmd', 'c': ctx.rnd.choice(['list', 'filter']), 'hasm': True, 'hasarg': True, 'ok': True, 'cap': -1, 'caperr': False,
                                   'ast': mrender.pat_full(args=mrender.args([mrender.arg({'k': 'str', 's': 'text/plain;charset=utf-8'})])),
                                   'spell': ['', '', []]}})
        s['events'].append({'in': {'e': 'cmd', 'c': 'list', 'hasm': False, 'ok': True, 'cap': 3, 'caperr': False}})
        render = {'dialect': ctx.rnd.choice(['old', 'new'])}
        rep.case('process:' + json.dumps(sessionprop.inputs_only(s), sort_keys=True))
        mode = 'run' if k % 3 == 2 else 'file'
        d = e2.compare(s, render, mode=mode)
        if d is not None and (d[0] & set(owned) or 'crash' in d[0]):
            rep.violation('process:' + ','.join(sorted(d[0])), 'as a real process (main.py %s, commands on stdin): ' % ('-r PROGRAM' if mode == 'run' else '-l FILE') + d[1],
                          {'kind': 'process-session', 'trace': sessionprop.inputs_only(s), 'render': render, 'mode': mode})
    rep.extra['process_sessions'] = rep.extra.get('process_sessions', 0) + n
