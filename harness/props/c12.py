"""C12 - filter/breakpoint commands accumulate alternatives and exclusions."""
import random
import gen, mrender, sessionprop
from props import sessbase
from props.common import relevant


def chain_session(seed, ncmd):
    """a short recorded history, then a chain of filter/breakpoint commands, evaluated on every message after each"""
    g = gen.SessionGen(seed, nconn=(1, 2), nmsg=(12, 25), junk=0.0, core=True)
    s = g.session()
    r = random.Random(seed)
    mg = gen.MatcherGen(r, 1)
    conns = []
    for e in s['events']:
        if e['in']['e'] == 'msg':
            mg.learn(e['in'], [1, 2])
    atoms = [mg.pat() for _ in range(6)]
    # atoms that look alike when printed but mean different things: a quoted string vs the same text as a word
    # (type / enum label), a quoted number vs the number
    words = [x for x in mg.strs if x.replace('_', '').isalnum() and not x[0].isdigit() and x != 'nil' and x.isascii()]
    if words and r.random() < 0.6:
        w = r.choice(words)
        atoms += [mrender.pat_full(args=mrender.args([mrender.arg({'k': 'str', 's': w})])),
                  mrender.pat_full(args=mrender.args([mrender.arg({'k': 'word', 't': mrender.W(w)})]))]
    if r.random() < 0.4:
        n = r.choice(mg.ints)
        if n >= 0:
            atoms += [mrender.pat_full(args=mrender.args([mrender.arg({'k': 'str', 's': str(n)})])),
                      mrender.pat_full(args=mrender.args([mrender.arg({'k': 'int', 'v': n})]))]
    evs = [e for e in s['events'] if e['in']['e'] != 'eof']
    for _ in range(ncmd):
        which = r.choice(['filter', 'break'])
        c = r.random()
        if c < 0.12:
            ast = r.choice([mrender.STAR, mrender.STAR, mrender.pat_full()])                 # `*`, or another way of saying it (`*.*`)
        elif c < 0.2:
            ast = r.choice([mrender.BANG, mrender.BANG, mrender.lst([r.choice(atoms)], [mrender.STAR])])   # `!`, or `x ! *`
        elif c < 0.3:
            evs.append({'in': {'e': 'cmd', 'c': which, 'hasarg': True, 'ok': False, 'bad': r.choice(gen.MatcherGen.BAD)}})
            continue
        elif c < 0.36:
            evs.append({'in': {'e': 'cmd', 'c': which, 'hasarg': False, 'ok': True}})
            continue
        else:
            late = atoms[6:]
            pos = r.sample(atoms, r.choice([0, 1, 1, 2])) if not (late and r.random() < 0.4) else [r.choice(late)]
            neg = r.sample(atoms, r.choice([0, 0, 1]))
            if r.random() < 0.1:
                pos.append(mrender.STAR)
            if not pos and not neg:
                pos = [r.choice(atoms)]
            ast = pos[0] if (len(pos) == 1 and not neg and r.random() < 0.7) else mrender.lst(pos, neg)
        evs.append({'in': {'e': 'cmd', 'c': which, 'hasarg': True, 'ok': True, 'ast': ast, 'spell': mg.spelling()}})
        if r.random() < 0.3:
            evs.append({'in': g.session()['events'][0]['in']}) if False else None
    s['events'] = evs + [{'in': {'e': 'eof'}}]
    # the session may start with -f / -b: an ordinary matcher, or a constant in one of its spellings (the first command then
    # replaces it)
    c = r.random()
    if c < 0.35:
        s['init'] = dict(s['init'], hasf=True, f=r.choice([mrender.pat_full(), mrender.STAR, r.choice(atoms)]))
    if 0.2 < c < 0.55:
        s['init'] = dict(s['init'], hasb=True, b=r.choice([mrender.lst([r.choice(atoms)], [mrender.STAR]), mrender.BANG, r.choice(atoms)]))
    return s


def sessions(ctx):
    def it(rep):
        yield from sessbase.model_sessions(ctx, rep, 'MC_Session_join.cfg', 'chains of filter / breakpoint commands over an atom pool',
                                           ctx.pick(1200, 15000))
        for k in range(ctx.pick(150, 1500)):
            yield chain_session(ctx.seed * 2038074743 + k, ctx.rnd.randint(3, 12)), {'dialect': 'new'}, 'chain'
        for k in range(ctx.pick(60, 600)):
            g = gen.SessionGen(ctx.seed * 472882027 + k, nconn=(1, 2), nmsg=(15, 40), junk=0.02, cmds=0.4, core=True, unresolved=0.08,
                               matcher_depth=1, with_init_filter=0.5)
            yield g.session(), {'dialect': 'old'}, 'random-live'
        yield from sessbase.rich_sessions(ctx, 1000081, ctx.pick(30, 300), cmds=0.4, with_init_filter=0.5)
    return it


def run(ctx):
    rep = sessbase.run_property(ctx, 'C12',
        'P1: TLC explores all chains (<= 5 events) of filter / breakpoint commands over an atom pool (alternatives, exclusions, '
        '`*`, `!`, malformed) interleaved with messages; P2: replayed through the tool; P3: random chains of 3-12 commands over '
        'generated atoms. After every command the tool\'s current filter and breakpoint matcher are evaluated on every recorded '
        'message and TLC compares the selection with Matcher!Refine / SelLo / SelHi; later shown lines and error lines too.',
        [('MC_Session_join.cfg', 'C12 accumulation')], sessions(ctx))
    # the same through GDB mode (`wl ...` commands typed while the program is halted, messages arriving as closures)
    from props import gdbbase
    gdbbase.gdb_batch(ctx, rep, relevant('C12'), ctx.pick(40, 400), 1000357)
    # ... and as a real process in file mode
    sessbase.process_batch(ctx, rep, ['info', 'error'], ctx.pick(12, 120), 1000423)
    return rep


def replay(ctx, data):
    return sessionprop.replay_session(ctx, data, relevant('C12'))
