"""C03 - object lifetimes: alive from creation to delete_id, never resurrected."""
import random
import gen, sessionprop
from props import sessbase, c02
from props.common import relevant


def sessions(ctx):
    def it(rep):
        yield from sessbase.model_sessions(ctx, rep, 'MC_Session_life.cfg', 'lifetimes, client- and server-side logs, clocks',
                                           ctx.pick(900, 12000), override={'MaxLen': 4},
                                           renders=[{'dialect': 'old'}, {'dialect': 'new'}, {'dialect': 'old', 'mark': ',', 'offset': 770203519}])
        for k in range(ctx.pick(150, 1500)):
            g = gen.SessionGen(ctx.seed * 104729 + k, nconn=(1, 2), nmsg=(20, 60), junk=0.03, core=None, dy=(k % 5 == 0))
            yield g.session(), {'dialect': ctx.rnd.choice(['old', 'new']), 'mark': ctx.rnd.choice(['.', ','])}, 'random'
        yield from sessbase.rich_sessions(ctx, 1000033, ctx.pick(40, 400))
        for k in range(ctx.pick(6, 30)):
            r2 = random.Random(ctx.seed * 37 + k)
            yield (c02.churn_session(r2, r2.choice([10, 40]), server_side=k % 2 == 0, srv=k % 3 == 0, back=k % 4 == 1),
                   {'dialect': 'new' if k % 2 else 'old'}, 'churn')
    return it


def run(ctx):
    rep = sessbase.run_property(ctx, 'C03',
        'P1: TLC checks AtMostOneAlive / OnlyLatestAlive / DeadHaveTime / NoResurrection / destruction annotations over all '
        'well-formed histories of the bounded model with clocks; P2: its behaviours are replayed through the tool; P3: random '
        'well-formed histories (client- and server-side logs, server-range reuse, many incarnations); alive flags, creation and '
        'destruction times, the destroyed annotation and the displayed lifespan are compared with Session!Step by TLC.',
        [('MC_Session_life.cfg', 'C03 lifetimes with clocks', {'MaxLen': 4}), ('MC_Session_tables.cfg', 'C02/C03 tables')], sessions(ctx))
    # lifetimes as GDB mode sees them (closures; sent messages name their target by id only)
    from props import gdbbase
    gdbbase.gdb_batch(ctx, rep, relevant('C03'), ctx.pick(50, 500), 1000381, cmd_rate=0.0, destroy_rate=0.02, init_break=0.0)
    # ... and as a real process (file / run mode), compared with the in-process run
    from props import sessbase as _sb
    _sb.process_batch(ctx, rep, ['msg'], ctx.pick(10, 100), 1000453, cmds_after=2)
    return rep


def replay(ctx, data):
    return sessionprop.replay_session(ctx, data, relevant('C03'))
