"""C15 - GDB mode follows libwayland's connections as they come and go."""
import sessionprop
from props import gdbbase
from props.common import relevant


def sessions(ctx):
    def it(rep):
        yield from gdbbase.model_traces(ctx, rep, ctx.pick(900, 9000), ctx.pick(4, 5))
        for k in range(ctx.pick(250, 2500)):
            yield gdbbase.gdb_session(ctx.seed * 39916801 + k, ctx.rnd.randint(10, 50), cmd_rate=0.08, destroy_rate=0.25, init_break=0.2), {'dialect': 'new'}, 'random-gdb'
    return it


def classify(trace, step, aspects):
    ev = trace['events'][step - 1]['in']
    if 'raised' in aspects and ev['e'] == 'destroy':
        known = any(e['in']['e'] == 'hit' and e['in']['addr'] == ev['addr'] for e in trace['events'][:step - 1])
        return 'destroy-raises:' + ('closed-before' if known else 'never-seen')
    return sessionprop.default_key(trace, step, aspects)


def run(ctx):
    rep = gdbbase.run_property(ctx, 'C15',
        'P1: TLC checks on GdbSession that the plugin\'s address map equals the set of open connections, that a message on an address not '
        'in the map opens a fresh connection (next name, empty table), that a destruction closes exactly that connection, and that every '
        'event - destruction of known, closed and never-seen connections, messages from other threads - is tolerated and leaves other '
        'connections untouched, over all event sequences (<= 5) on two addresses and two threads; P2: replayed through the real Plugin '
        '(E3-lite); P3: random sequences dense in destructions and address reuse. Notices, X: prefixes, incarnation letters after reuse, '
        'escaping exceptions and unexpected halts are compared with GdbSession!GStep by TLC.',
        sessions(ctx), relevant('C15'), classify=classify)
    return rep


def replay(ctx, data):
    return sessionprop.replay_session(ctx, data, relevant('C15'), runner=gdbbase.runner, spec=gdbbase.SPEC)
