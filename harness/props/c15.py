"""C15 - GDB mode follows libwayland's connections as they come and go."""
import sessionprop
from props import gdbbase
from props.common import relevant


def sessions(ctx):
    def it(rep):
        yield from gdbbase.model_traces(ctx, rep, ctx.pick(900, 9000), ctx.pick(4, 5))
        for k in range(ctx.pick(250, 2500)):
            yield gdbbase.gdb_session(ctx.seed * 39916801 + k, ctx.rnd.randint(10, 50), cmd_rate=0.08, destroy_rate=0.25, init_break=0.2), {'dialect': 'new'}, 'random-gdb'
    return it


def real_gdb_sessions(ctx, rep, rel=None, n=None, salt=7919, tag='real-gdb', destroy=0.18, extra=()):
    """the same kind of event sequences - messages on several connection addresses (client and server side, from the main and
    from other threads), destructions of known / closed / never-seen connections, address reuse - executed by the real plugin
    inside the real gdb on the mock libwayland"""
    import random
    import e3session, gen, protoextract, tracecheck
    d = protoextract.load()
    traces = []
    for k in range(n if n is not None else ctx.pick(12, 80)):
        r = random.Random(ctx.seed * salt + k)
        addrs = ['0x5555aa10', '0x5555bb20', '0x7ffff0c0'][:r.randint(1, 3)]
        live, ev, t = {}, [], 5000
        for _ in range(r.randint(12, 45)):
            t += 10
            a = r.choice(addrs)
            c = r.random()
            if c < destroy:
                target = a if r.random() < 0.7 else r.choice(addrs + ['0xdeadbeef'])
                ev.append({'in': {'e': 'destroy', 'addr': target}})
                live.pop(target, None)
                continue
            first = a not in live
            if first:
                side = r.random() < 0.4
                live[a] = gen.ConnGen(r, a, side, d['proto'], d['kinds'], set(d['amb_msgs']), [i for i in gen.CORE_IFACES if i in d['proto']])
                if r.random() < 0.2:
                    live[a].started = True
            m = live[a].next(t)['m']
            if any(x['k'] == 'array' for x in m['args']):
                for x in m['args']:
                    if x['k'] == 'array':
                        x['n'] = 0
            e = {'e': 'hit', 'addr': a, 'thread': r.choice([1, 1, 1, 2]), 't': t, 'm': m}
            if first:
                e['side'] = 'server' if live[a].server_side else 'client'
            ev.append({'in': e})
        tr = {'init': {'show': True, 'hasf': False, 'hasb': False}, 'events': ev}
        e3session.run(tr)
        traces.append(tr)
        rep.case(tag + ':' + str(k))
    for k, tr in enumerate(extra):
        e3session.run(tr)
        traces.append(tr)
        rep.case(tag + ':extra:' + str(k))
    v = tracecheck.validate_parallel(traces, name='c15gdb', spec=gdbbase.SPEC)
    rep.add_tlc(v, 'TraceGdb on %d sessions of the real plugin in the real gdb (%d events)' % (v.ntraces, v.nsteps))
    rep.traces += v.ntraces
    rel = rel or relevant('C15')
    for t, l, asp in v.failing(rel):
        tr = traces[t - 1]
        rep.violation(tag + ':' + classify(tr, l, [a for a in asp if rel(a)]),
                      'in the real gdb, event %d (%s) differs from GdbSession!GStep in %s' % (l, sessionprop.describe(tr, l), [a for a in asp if rel(a)]),
                      {'kind': 'realgdb', 'trace': sessionprop.inputs_only(tr), 'step': l})
    rep.extra['real_gdb_sessions'] = rep.extra.get('real_gdb_sessions', 0) + len(traces)


def null_objects_session(server=False):
    """closures with null object arguments whose interface the message declares (and one that declares none), sent and received"""
    def hit(t, m, side=None):
        e = {'e': 'hit', 'addr': '0x5555aa10', 'thread': 1, 't': t, 'm': m}
        if side:
            e['side'] = side
        return {'in': e}

    def M(ty, i, name, sent, args):
        return {'ttype': ty, 'tid': i, 'name': name, 'sent': sent, 'args': args}
    c = not server       # requests are sent by a client
    ev = [hit(1000, M('wl_display', 1, 'get_registry', c, [{'k': 'new', 'type': 'wl_registry', 'id': 2}]), 'server' if server else 'client'),
          hit(1100, M('wl_registry', 2, 'bind', c, [{'k': 'int', 'v': 1}, {'k': 'str', 's': 'wl_compositor'}, {'k': 'int', 'v': 4}, {'k': 'new', 'type': '', 'id': 3}])),
          hit(1200, M('wl_compositor', 3, 'create_surface', c, [{'k': 'new', 'type': 'wl_surface', 'id': 4}])),
          hit(1300, M('wl_surface', 4, 'attach', c, [{'k': 'nil', 'type': '', 'decl': 'wl_buffer'}, {'k': 'int', 'v': 5}, {'k': 'int', 'v': 7}])),
          hit(1400, M('wl_surface', 4, 'set_input_region', c, [{'k': 'nil', 'type': '', 'decl': 'wl_region'}])),
          hit(1500, M('wl_surface', 4, 'enter', not c, [{'k': 'nil', 'type': '', 'decl': 'wl_output'}])),
          hit(1600, M('wl_surface', 4, 'set_opaque_region', c, [{'k': 'nil', 'type': '', 'decl': 'wl_region'}]))]
    return {'init': {'show': True, 'hasf': False, 'hasb': False}, 'events': ev}


def classify(trace, step, aspects):
    ev = trace['events'][step - 1]['in']
    if 'raised' in aspects and ev['e'] == 'destroy':
        known = any(e['in']['e'] == 'hit' and e['in']['addr'] == ev['addr'] for e in trace['events'][:step - 1])
        return 'destroy-raises:' + ('closed-before' if known else 'never-seen')
    return sessionprop.default_key(trace, step, aspects)


def run(ctx):
    rep = gdbbase.run_property(ctx, 'C15',
        'P1: TLC checks on GdbSession that the plugin\'s address map equals the set of open connections, that a message on an address not '
        'in the map opens a fresh connection (next name, empty table), that a destruction closes exactly that connection, and that every '
        'event - destruction of known, closed and never-seen connections, messages from other threads - is tolerated and leaves other '
        'connections untouched, over all event sequences (<= 5) on two addresses and two threads; P2: replayed through the real Plugin '
        '(E3-lite); P3: random sequences dense in destructions and address reuse. Notices, X: prefixes, incarnation letters after reuse, '
        'escaping exceptions and unexpected halts are compared with GdbSession!GStep by TLC.',
        sessions(ctx), relevant('C15'), classify=classify)
    real_gdb_sessions(ctx, rep)
    return rep


def replay(ctx, data):
    if data.get('kind') == 'realgdb':
        import copy, e3session
        return sessionprop.replay_session(ctx, data, relevant('C15'), runner=lambda tr, render: e3session.run(tr), spec=gdbbase.SPEC)
    return sessionprop.replay_session(ctx, data, relevant('C15'), runner=gdbbase.runner, spec=gdbbase.SPEC)
