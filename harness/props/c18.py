"""C18 - no input makes the tool fail with an unhandled error."""
import itertools, json, os, random, shutil, subprocess, tempfile
from concurrent.futures import ThreadPoolExecutor
import framework, tlc, e1, gen, printer, tracecheck
from props import sessbase, c13

LEVEL = 'exploration'
DELIMS = '@#()[],."-> \t=:!*\\\'{}<>'


def mutate(line, r, other):
    c = r.random()
    if c < 0.18:
        return line[:r.randint(0, len(line))]
    if c < 0.40 and line:
        i = r.randrange(len(line))
        return line[:i] + r.choice(DELIMS) + line[i + 1:]
    if c < 0.48 and line:
        i = r.randrange(len(line))
        return line[:i] + r.choice(DELIMS) + line[i:]
    if c < 0.56:
        i, j = r.randint(0, len(line)), r.randint(0, len(other))
        return line[:i] + other[j:]
    if c < 0.62:
        return line.replace('@', '@0', 1) if r.random() < 0.5 else line.replace('new id ', 'new id [unknown]@1 ', 1)
    if c < 0.68:
        return line.replace('(', '(' + r.choice(['123456789012345678901234567890', '1e999', '-1e999', 'nan', '1e-999', '0x10', '١٢٣', '1_000']) + ', ', 1)
    if c < 0.70:
        import re as _re
        return _re.sub(r'\((-?\d+)', '(' + r.choice(['1e999', '-1e999', 'nan', '1e400', '0.0000001', '12345678901234567890']), line, count=1)
    if c < 0.72:
        return line + line
    if c < 0.76:
        return line.replace('.', '.' + r.choice(['', 'no_such_message', 'delete_id', 'bind', 'new', 'destroyed']) , 1)
    if c < 0.80:
        return r.choice(['\x00', '\x1b', '\x1b[31m', '\r', '\x0c', ' ', '\udcff\udcfe', '﻿']) + line
    if c < 0.84:
        return ''.join(r.choice(DELIMS + 'abc019 ') for _ in range(r.randint(0, 60)))
    if c < 0.88:
        return '[%s] wl_display@1.delete_id(%s)' % (r.choice(['1.0', '1,0', '99999999999.999']), r.choice(['77', '1', '0', '-3', '"x"', 'nil', '', '4294967296']))
    if c < 0.92:
        return '[1.0] wl_registry@2.bind(%s)' % r.choice(['1', '1, "wl_shm"', '1, 2, 3, 4', '1, "a", 1, new id [unknown]@1', '1, "a", 1, new id wl_x@9', 'x, "a", 1, 5'])
    return line


def fuzz_trace(seed, n):
    g = gen.SessionGen(seed, nconn=(1, 3), nmsg=(n, n), junk=0.1, core=None)
    s = g.session()
    r = random.Random(seed)
    render = {'dialect': r.choice(['old', 'new']), 'mark': r.choice(['.', ','])}
    lines = c13.stream_of(s, render)
    out = []
    for i, l in enumerate(lines):
        if r.random() < 0.45:
            l = mutate(l, r, r.choice(lines))
        out.append({'in': {'e': 'line', 'raw': l.replace('\n', ' ')}})
    if r.random() < 0.6:
        # numbers no 32-bit integer or 24.8 fixed can hold, on an interface without description (so the message is recorded)
        out.insert(r.randint(0, len(out)), {'in': {'e': 'line', 'raw': '[%d.000] zz_fuzz_v1@77.frob(1e999, nan, -1e999, 12345678901234567890, -0.0, 1e-400)' % r.randint(1, 99999)}})
    out.append({'in': {'e': 'eof'}})
    return {'init': {'show': r.random() < 0.85, 'hasf': False, 'hasb': False}, 'events': out}, lines


COMMANDS = ['help', 'list', 'filter', 'breakpoint', 'matcher', 'connection', 'resume', 'quit', 'l', 'f', 'b', 'm', 'c', 'r', 'q', 'h',
            'wl', 'w', 'wlhelp', 'wllist', 'wl list', 'w l', 'list ~', 'list ~ ~', 'list ~ -1', 'list ~ 1e9', 'list * ~ 99999999999999999999',
            'list (1e999)', 'list (0)', 'list (=0.0)', 'list ("', 'list [', 'list \x1b[31mwl_surface\x1b[0m', 'filter (', 'filter !', 'filter *',
            'breakpoint ', 'connection \x00', 'connection A', 'connection a', 'connection all', 'help help', 'help matcher', 'help \x1b', 'help wl',
            'matcher', 'matcher a.b.c', 'matcher [x', 'matcher *', '~', '!', '*', '', ' ', '\t', 'é', '日本', 'x' * 500, 'list ' + '[' * 200,
            'list ' + 'a,' * 300, 'filter ' + '!' * 3, 'list (x=)', 'list .(nil)', 'list (nil)', 'list @', 'list #', 'list @a', 'list 5ZZZZZZZZZZZZ',
            'list 99999999999999999999999', 'list :', 'list ::', 'list a:b:c', 'list .', 'list ..', 'list ()', 'list (=)', 'list (,)', 'list ,',
            'list (1.5)', 'list (-0)', 'list (+1)', 'list ( 1 )', 'list (nan)', 'list (inf)', 'list (1e400)', 'list ("\\")']
# every command word (names, abbreviations, GDB spellings) followed by every other one: `help resume`, `h q`, `wl help qui`, ...
_WORDS = ['help', 'list', 'filter', 'breakpoint', 'matcher', 'connection', 'resume', 'quit', 'h', 'l', 'f', 'b', 'm', 'c', 'r', 'q',
          'he', 'res', 'qui', 'conn', 'break', 'wlhelp', 'wlresume', 'wlquit', 'wllist', 'wl', 'all', '~', '~ 0', '~ 1']
COMMANDS += [a + ' ' + b for a in _WORDS for b in _WORDS] + ['wl ' + a + ' ' + b for a in _WORDS[:8] for b in _WORDS[:11]]
ALPHABET = ['a', '1', '*', ',', '!', ':', '.', '(', ')', '[', ']', '=', '@', '"', ' ', '#']


def matcher_fuzz(ctx, rep, msgs):
    """every string over the matcher alphabet up to a length, and random longer ones: accepted or rejected with a diagnostic;
    an accepted matcher can be evaluated on any message and printed"""
    m = e1.mods()
    r = ctx.rnd
    texts = []
    for n in range(0, ctx.pick(3, 4) + 1):
        for t in itertools.product(ALPHABET[:ctx.pick(13, 16)], repeat=n):
            texts.append(''.join(t))
    for _ in range(ctx.pick(4000, 60000)):
        texts.append(''.join(r.choice(ALPHABET + ['wl_surface', 'nil', '1e999', '-', '0.5', 'é', '\x1b[0m', '~', 'x' * 3]) for _ in range(r.randint(4, 14))))
    # matchers whose parts are wildcards over names, interfaces and labels
    texts += ['(wl_*)', '(*_buffer)', '(x=wl_*)', '([wl_*, xdg_*])', '(a*)', '(*a)', '.(n*)', '(*=*l*)', 'wl_*.(wl_*)', '(! wl_*)', '(nil)', '(*nil*)',
              '*l*:', '*l*: *l*.*l*(*l*=*l*)', '.*(*)', '(1*)', '(*1)', '("*")', "('a*')"]
    # messages with arguments about which little is known: a nil where no interface is declared (a nullable string, an
    # interface the tool has no description of), untyped new ids, unknown interfaces
    S = e1.Session()
    import io
    m.parse.into_sink(io.StringIO('\n'.join([
        '[1000.000]  -> wl_display@1.get_registry(new id wl_registry@2)',
        '[1000.100] wl_data_offer@4278190080.accept(7, nil)',
        '[1000.200]  -> zz_nowhere_v9@77.frob(nil, wl_surface@5, new id [unknown]@9, 3, "s", fd 4, array[8])',
        '[1000.300] wl_registry@2.global(1, "wl_compositor", 4)',
        '[1000.400]  -> wl_surface@12.attach(nil, 0, 0)']) + '\n'), S.output, S.cm)
    odd = list(S.hist())
    sample_msgs = odd + (msgs if len(msgs) <= 60 else r.sample(msgs, 60))
    nacc = 0
    for t in texts:
        rep.case('matcher:' + t)
        try:
            mm = m.matcher.parse(t)
        except RuntimeError:
            continue
        except Exception as e:
            rep.violation('matcher-parse-raises:' + type(e).__name__, 'matcher text %r makes parse() raise %r' % (t, e), {'kind': 'matcher', 'text': t})
            continue
        nacc += 1
        stage = 'str'
        try:
            str(mm); repr(mm)
            stage = 'matches (unsimplified)'
            for x in sample_msgs:
                mm.matches(x)
            stage = 'simplify'
            ms = mm.simplify()
            stage = 'str (simplified)'
            str(ms); repr(ms)
            stage = 'matches'
            for x in sample_msgs:
                ms.matches(x)
        except Exception as e:
            what = 'overflow-on-infinite-float' if isinstance(e, OverflowError) else type(e).__name__
            rep.violation('matcher-eval-raises:' + what, 'accepted matcher %r raises %r in %s' % (t, e, stage), {'kind': 'matcher', 'text': t})
    rep.extra['matcher_texts'] = len(texts)
    rep.extra['matcher_texts_accepted'] = nacc


def run_bytes(args, data, timeout=60, child=False):
    env = dict(c13.ENV)
    p = subprocess.Popen([c13.PY, os.path.join(c13.REPO, 'main.py')] + args, cwd=c13.REPO, env=env, stdin=subprocess.PIPE,
                         stdout=subprocess.PIPE, stderr=subprocess.PIPE)
    try:
        out, err = p.communicate(data, timeout=timeout)
    except subprocess.TimeoutExpired:
        p.kill()
        return -999, '', 'TIMEOUT'
    return p.returncode, out.decode('utf-8', 'replace'), err.decode('utf-8', 'replace')


def process_fuzz(ctx, rep, streams):
    """arbitrary bytes in file, pipe and run mode (real processes)"""
    tmp = tempfile.mkdtemp(prefix='c18-', dir=os.path.join(tlc.OUT, 'tmp'))
    r = ctx.rnd
    try:
        cases = []
        for k, text in enumerate(streams):
            data = text.encode('utf-8', 'surrogateescape')
            kind = 'text'
            if k % 3 == 0:
                # undecodable bytes / random garbage spliced in
                b = bytearray(data)
                for _ in range(r.randint(1, 6)):
                    i = r.randint(0, len(b))
                    b[i:i] = bytes(r.choice([[0xff], [0xfe, 0xff], [0xc3], [0x80], [0xe2, 0x28, 0xa1], [0x00], [0xf0, 0x9f]]))
                data = bytes(b)
                kind = 'undecodable'
            elif k % 7 == 1:
                data = bytes(r.getrandbits(8) for _ in range(r.randint(0, 400)))
                kind = 'random-bytes'
            cases.append((k, kind, data))
        # bytes that some format would recognise at the start of a file (compression and archive magic numbers, byte order
        # marks, NUL): still only bytes fed as a log - alone, before a log, and before a cut-off log
        sample = (streams[0] if streams else '[1.000]  -> wl_display@1.get_registry(new id wl_registry@2)\n').encode('utf-8', 'surrogateescape')
        import gzip as _gz
        MAGIC = [b'\x1f\x8b', b'\x1f\x8b\x08\x00', b'BZh91AY', b'\xfd7zXZ\x00', b'PK\x03\x04', b'\x28\xb5\x2f\xfd', b'\xef\xbb\xbf', b'\xff\xfe', b'\xfe\xff',
                 b'\x00', b'\x7fELF', b'#!/bin/sh\n', _gz.compress(sample)[:max(12, len(_gz.compress(sample)) // 2)], _gz.compress(sample) + b'trailing']
        for j, mg in enumerate(MAGIC):
            cases.append((len(streams) + j, 'magic-number', mg + (b'' if j % 3 == 0 else sample if j % 3 == 1 else sample[:len(sample) // 2])))

        def one(case):
            k, kind, data = case
            f = os.path.join(tmp, 'f%d.log' % k)
            open(f, 'wb').write(data)
            sched = os.path.join(tmp, 's%d.json' % k)
            res = {}
            res['file'] = run_bytes(['-l', f], b'quit\n')
            res['pipe'] = run_bytes(['-p'], data)
            # run mode: the child writes the bytes to stderr
            childsrc = os.path.join(tmp, 'c%d.py' % k)
            open(childsrc, 'w').write('import os,sys\nos.write(2, open(%r,"rb").read())\nos._exit(0)\n' % f)
            res['run'] = run_bytes(['-r', c13.PY, childsrc], b'resume\n')
            return res
        with ThreadPoolExecutor(max_workers=12) as ex:
            results = list(ex.map(one, cases))
        for (k, kind, data), res in zip(cases, results):
            for mode in ('file', 'pipe', 'run'):
                rc, out, err = res[mode]
                rep.case('bytes:%s:%d' % (mode, k))
                rp = {'kind': 'bytes', 'mode': mode, 'data_hex': data.hex()}
                new = out.count('\nNew ') + (1 if out.startswith('New ') else 0)
                closed = out.count('\nClosed ') + (1 if out.startswith('Closed ') else 0)
                if rc != 0 or 'Traceback (most recent call last)' in err:
                    exc = 'UnicodeDecodeError' if 'UnicodeDecodeError' in err else ('timeout' if err == 'TIMEOUT' else 'other')
                    rep.violation('process-aborts:%s:%s' % (exc, kind if exc != 'UnicodeDecodeError' else 'undecodable-bytes'),
                                  '%s mode aborts (exit %s) on %s input: %s' % (mode, rc, kind, err.strip().split('\n')[-1][:200]), rp)
                elif new != closed:
                    rep.violation('process-closed-count:' + mode, '%s mode announces %d connections and reports %d closed' % (mode, new, closed), rp)
        rep.extra['process_runs'] = 3 * len(cases)
    finally:
        shutil.rmtree(tmp, ignore_errors=True)


def run(ctx):
    rep = framework.Report(ctx, LEVEL)
    r = ctx.rnd
    # (a) fuzzed logs in-process, with commands typed against the state they leave
    runs, msgs, streams = [], [], []
    traces = []
    nsess = ctx.pick(400, 4000)
    per = (len(COMMANDS) + nsess - 1) // nsess
    for k in range(nsess):
        tr, lines = fuzz_trace(ctx.seed * 7368787 + k, r.randint(8, 40))
        # every listed command line is typed at least once in a run (against some session state), the rest is sampled
        for text in COMMANDS[k * per:(k + 1) * per]:
            tr['events'].append({'in': {'e': 'cmd', 'c': 'other', 'text': text}})
        for _ in range(r.randint(3, 10)):
            tr['events'].append({'in': {'e': 'cmd', 'c': 'other', 'text': r.choice(COMMANDS) if r.random() < 0.8 else
                                        ''.join(r.choice(ALPHABET + list('lfbmchqr ~')) for _ in range(r.randint(1, 12)))}})
        e1.run(tr, keep_session=True)
        S = tr.pop('_S')
        msgs += list(S.hist())[:8]
        rep.case(json.dumps([e['in'] for e in tr['events']]))
        import lexer

        def kind_of(i):
            # a message line whose labels the lexer cannot take apart (a fuzzed interface name) is still a message line
            if i['k'] == 'text' and lexer.MSG_LINE.fullmatch(i.get('text', '')):
                return 'msg'
            if i['k'] == 'text' and i.get('text', '').startswith('    Stopped at '):
                return 'stopped'
            return i['k']
        lines_items, eof_items, reached = [], [], False
        for e in tr['events']:
            if e['in']['e'] == 'line':
                lines_items.append([{'k': kind_of(i), 'name': i.get('name', '')} for i in e['obs']['items']])
            elif e['in']['e'] == 'eof':
                reached = 'obs' in e and 'escaped' not in tr
                eof_items = [{'k': i['k'], 'name': i.get('name', '')} for i in e['obs']['items']]
            elif e['in']['e'] == 'cmd' and e['obs'].get('raised'):
                exc = e['obs']['exception'].strip().split('\n')[-1]
                what = 'overflow-on-infinite-float' if 'OverflowError' in exc else exc.split(':')[0]
                rep.violation('command-raises:' + what, 'command %r raises: %s' % (e['in']['text'], exc[:200]),
                              {'kind': 'session', 'trace': {'init': tr['init'], 'events': [{'in': x['in']} for x in tr['events']]}})
        runs.append({'show': tr['init']['show'], 'lines': lines_items, 'eof': eof_items, 'reached_eof': bool(reached), 'escaped': 'escaped' in tr})
        traces.append(tr)
        if k % 5 == 0:
            streams.append('\n'.join(e['in']['raw'] for e in tr['events'] if e['in']['e'] == 'line') + '\n')
        if len(rep.samples) < 3:
            rep.sample({'fuzzed_lines': [e['in']['raw'] for e in tr['events'] if e['in']['e'] == 'line'][:5]})
    path = os.path.join(tlc.OUT, 'tmp', 'c18-%d.json' % os.getpid())
    json.dump(runs, open(path, 'w'))
    try:
        res = tlc.run_tlc('TracePipeline.tla', cfg='TracePipeline.cfg', env={'TRACE_FILE': path}, workers=16)
    finally:
        os.unlink(path)
    rep.add_tlc(res, 'TracePipeline: %d fuzzed runs: every line takes a legal outcome, the input is consumed, every announced connection closed once' % len(runs))
    rep.traces += len(runs)
    for d in tlc.printed_tuples(res.stdout, 'DIFF'):
        tr = traces[d[0] - 1]
        detail = tr.get('escaped', '')[-300:] if d[1] in ('escaped', 'not-consumed') else ('line %d' % d[2])
        exc = ''
        if 'escaped' in tr:
            exc = ':' + tr['escaped'].strip().split('\n')[-1].split(':')[0]
        rep.violation('log:' + d[1] + exc, 'fuzzed log: %s (%s)' % (d[1], detail),
                      {'kind': 'session', 'trace': {'init': tr['init'], 'events': [{'in': x['in']} for x in tr['events']]}, 'line': d[2]})
    # (b) matchers
    matcher_fuzz(ctx, rep, msgs)
    # (c) real processes on bytes
    process_fuzz(ctx, rep, streams[:ctx.pick(24, 200)])
    rep.rule = ('(a) generated logs with 45% of the lines mutated (truncation, delimiter substitution / insertion, interleaved lines, id 0, '
                'id 1 as new id, 30-digit / 1e999 / nan numbers, unknown messages, NUL / ESC / CR / surrogate characters, broken delete_id and '
                'bind lines, random delimiter soup) are fed through the real pipeline in-process; TLC validates each run against Pipeline '
                '(legal outcome per line, input consumed, announced = closed); printable and unprintable command lines are typed against the '
                'state left behind; (b) every string over the matcher alphabet up to length 3/4 and random longer ones: parse raises only '
                'RuntimeError, an accepted matcher is printed, simplified and evaluated on messages harvested from (a); (c) the same streams, '
                'with undecodable bytes spliced in, and random bytes, through real main.py processes in file, pipe and run mode: exit 0, no '
                'traceback, announced = closed. A case is one log, matcher text or process run.')
    rep.assumptions = ['processes run under LANG=C.UTF-8 (under the C locale Python decodes stdin with surrogateescape and undecodable bytes do not raise)']
    return rep


def replay(ctx, data):
    if data['kind'] == 'matcher':
        m = e1.mods()
        try:
            mm = m.matcher.parse(data['text'])
            print('accepted:', repr(mm))
            print('simplified:', repr(mm.simplify()))
        except RuntimeError as e:
            print('rejected:', e)
        return True
    if data['kind'] == 'bytes':
        tmp = tempfile.mkdtemp(prefix='c18r-', dir=os.path.join(tlc.OUT, 'tmp'))
        try:
            f = os.path.join(tmp, 'f.log')
            open(f, 'wb').write(bytes.fromhex(data['data_hex']))
            if data['mode'] == 'file':
                rc, out, err = run_bytes(['-l', f], b'quit\n')
            elif data['mode'] == 'pipe':
                rc, out, err = run_bytes(['-p'], bytes.fromhex(data['data_hex']))
            else:
                src = os.path.join(tmp, 'c.py')
                open(src, 'w').write('import os\nos.write(2, open(%r,"rb").read())\nos._exit(0)\n' % f)
                rc, out, err = run_bytes(['-r', c13.PY, src], b'resume\n')
            print('exit', rc)
            print(err[-800:])
            return rc != 0
        finally:
            shutil.rmtree(tmp, ignore_errors=True)
    import copy
    tr = copy.deepcopy(data['trace'])
    e1.run(tr)
    if 'escaped' in tr:
        print(tr['escaped'])
        return True
    for e in tr['events']:
        if e['obs'].get('raised'):
            print(e['in'], e['obs']['exception'])
            return True
    return False
