"""C09 - GDB mode reports each libwayland closure faithfully, as log mode would."""
import json, os, random
import framework, tlc, e1, e3, printer, lexer

LEVEL = 'model_checking'

INTS_I = ['0', '5', '-1', '-2147483648', '2147483647', '-42']
INTS_U = ['0', '7', '2147483648', '4294967295', '4278190080']
FIXED = [0, 384, -384, 1, -1, 2147483647, -2147483648, 25600, -257, 64]
STRS = [None, 'hello', '', 'a, b', 'x (y) [z]', 'héllo', 'nil', '12']
ARRS = [[], ['7'], ['5', '6', '7'], ['-1', '2147483647', '0', '9']]
FDS = ['0', '5', '1023']
IFACES = ['zz_target', 'zz_a', 'zz_b']


def make_closure(sig, k, r, kind=None):
    """a closure for the signature (a list of characters): values drawn class by class; ids unique per closure"""
    codes = [c for c in sig if c in 'iufsonah']
    kind = r.choice([0, 1, 2, 3, 4]) if kind is None else kind
    types, args = [], []
    base = 100000 + k * 40
    for j, c in enumerate(codes):
        ty = ''
        if c in 'iu':
            a = {'v': r.choice(INTS_I if c == 'i' else INTS_U)}
        elif c == 'h':
            a = {'v': r.choice(FDS)}
        elif c == 'f':
            a = {'raw': r.choice(FIXED)}
        elif c == 's':
            s = r.choice(STRS)
            a = {'null': s is None, 's': s or ''}
        elif c == 'o':
            ty = r.choice(['zz_a', 'zz_b', ''])
            null = r.random() < 0.3
            own = ty or r.choice(['zz_a', 'zz_b'])
            a = {'null': null, 'id': str(base + j), 'otype': own}
        elif c == 'n':
            ty = r.choice(['zz_a', 'zz_b', 'zz_a', ''])
            a = {'id': str(base + 20 + j)}
        elif c == 'a':
            a = {'vals': list(r.choice(ARRS)), 'extra': r.choice([0, 0, 0, 1, 2, 3])}
        types.append(ty)
        args.append(a)
    return {'name': 'm%d' % k, 'sig': list(sig), 'types': types, 'sender': str(base + 39), 'kind': kind,
            'ttype': 'zz_target', 'args': args}


def scenario_lines(closures):
    lines = ['I ' + i for i in IFACES]
    idx = {n: i for i, n in enumerate(IFACES)}
    ops = {}
    for k, c in enumerate(closures):
        codes = [x for x in c['sig'] if x in 'iufsonah']
        lines.append('M %s %s %d %s' % (c['name'], ''.join(c['sig']) or '-', len(codes), ' '.join(str(idx[t]) if t else '-1' for t in c['types'])))
    for k, c in enumerate(closures):
        codes = [x for x in c['sig'] if x in 'iufsonah']
        toks = []
        for code, a, ty in zip(codes, c['args'], c['types']):
            if code in 'iuh':
                toks.append(a['v'])
            elif code == 'f':
                toks.append(str(a['raw']))
            elif code == 's':
                toks.append('-' if a['null'] else '=' + a['s'].encode('utf-8').hex())
            elif code == 'o':
                toks.append('-' if a['null'] else '%d:%s' % (idx[a['otype']], a['id']))
            elif code == 'n':
                toks.append('%d:%s' % (idx[ty] if ty else 1, a['id']) if c['kind'] == 0 else a['id'])
            elif code == 'a':
                toks.append('%d%s:%s' % (len(a['vals']), '+%d' % a['extra'] if a.get('extra') else '', ','.join(a['vals'])))
        lines.append('C %d %d 0 %d %s %d %d %s' % (c['kind'], k % 3, k, c['sender'], idx[c['ttype']], len(codes), ' '.join(toks)))
        ops[len(lines)] = k
    return lines, ops


def arg_obs(a):
    k = a['k']
    if k == 'int':
        return {'k': 'int', 'v': str(a['v'])}
    if k == 'fd':
        return {'k': 'fd', 'v': str(a['v'])}
    if k == 'float':
        return {'k': 'float', 'raw': a['raw'] if a.get('exact', True) else 123456789}
    if k == 'str':
        return {'k': 'str', 's': a['s']}
    if k == 'nil':
        return {'k': 'nil', 'niltype': a['niltype']}
    if k == 'obj':
        return {'k': 'obj', 'new': a['new'], 'id': str(a['obj']['id'] & 0xffffffff), 'type': a['obj']['type']}
    if k == 'array':
        return {'k': 'array', 'vals': [str(v['v']) if v['k'] == 'int' else '?' for v in a.get('values', [])]}
    return {'k': k}


def gdb_obs(item):
    if item is None:
        return {'present': False, 'name': '', 'sent': False, 'tid': '', 'ttype': '', 'args': []}
    return {'present': True, 'name': item['name'], 'sent': item['sent'], 'tid': str(item['target']['id'] & 0xffffffff),
            'ttype': item['target']['type'], 'args': [arg_obs(a) for a in item['args']]}


def abstract_line(c):
    """the closure as libwayland prints it (printer model input)"""
    codes = [x for x in c['sig'] if x in 'iufsonah']
    args = []
    for code, a, ty in zip(codes, c['args'], c['types']):
        if code == 'i':
            args.append({'k': 'int', 'v': int(a['v'])})
        elif code == 'u':
            args.append({'k': 'uint', 'v': int(a['v'])})
        elif code == 'h':
            args.append({'k': 'fd', 'v': int(a['v'])})
        elif code == 'f':
            args.append({'k': 'float', 'raw': a['raw']})
        elif code == 's':
            args.append({'k': 'nil', 'type': ''} if a['null'] else {'k': 'str', 's': a['s']})
        elif code == 'o':
            args.append({'k': 'nil', 'type': ''} if a['null'] else {'k': 'obj', 'type': a['otype'], 'id': int(a['id'])})
        elif code == 'n':
            args.append({'k': 'new', 'type': ty, 'id': int(a['id'])})
        elif code == 'a':
            args.append({'k': 'array', 'n': 4 * len(a['vals']) + a.get('extra', 0)})
    return {'tag': '', 't': 1000, 'm': {'ttype': c['ttype'], 'tid': int(c['sender']), 'name': c['name'], 'sent': c['kind'] in (3, 4), 'args': args}}


def log_obs(c):
    m = e1.mods()
    A = m.wl.Arg
    m.wl.Message.base_time = 0.0
    try:
        cid, msg = m.parse.message(printer.line(abstract_line(c), dialect='new'))
    except Exception:
        return {'present': False, 'name': '', 'sent': False, 'tid': '', 'ttype': '', 'args': []}
    args = []
    for x in msg.args:
        if isinstance(x, A.Int): args.append({'k': 'int', 'v': str(x.value)})
        elif isinstance(x, A.Float):
            raw = lexer._num_raw(repr(x.value))
            args.append({'k': 'float', 'raw': raw if raw is not None else 123456789})
        elif isinstance(x, A.String): args.append({'k': 'str', 's': x.value})
        elif isinstance(x, A.Null): args.append({'k': 'nil', 'niltype': x.type or ''})
        elif isinstance(x, A.Object): args.append({'k': 'obj', 'new': bool(x.is_new), 'id': str(x.obj.id), 'type': x.obj.type or ''})
        elif isinstance(x, A.Fd): args.append({'k': 'fd', 'v': str(x.value)})
        elif isinstance(x, A.Array): args.append({'k': 'array', 'vals': []})
        else: args.append({'k': 'unknown'})
    return {'present': True, 'name': msg.name, 'sent': bool(msg.sent), 'tid': str(msg.obj.id), 'ttype': msg.obj.type or '', 'args': args}


def classify(c, where, aspects):
    """finding key: which kind of argument, in which situation, is misreported"""
    codes = [x for x in c['sig'] if x in 'iufsonah']
    asp = sorted(aspects)
    after_array = any(code == 'a' and len(a['vals']) > 0 for code, a in zip(codes[:-1], c['args'][:-1]))
    null_string = any(code == 's' and a['null'] for code, a in zip(codes, c['args']))
    key = where + ':' + ','.join(asp)
    if where == 'gdb' and after_array and any(a.startswith('arg.') or a in ('missing', 'nargs') for a in asp):
        return 'gdb:argument-after-nonempty-array'
    if null_string and set(asp) <= {'arg.kind'}:
        return where + ':null-string'
    return key


def run(ctx):
    rep = framework.Report(ctx, LEVEL)
    r = ctx.rnd
    cases_file = os.path.join(tlc.OUT, 'tmp', 'sigs-%d.json' % os.getpid())
    cfg = open(os.path.join(tlc.SPEC, 'MC_Closure.cfg')).read()
    if ctx.quick:
        cfg = cfg.replace('MaxArgs = 3', 'MaxArgs = 2')
    tmpcfg = os.path.join(tlc.SPEC, '_closure_%d.cfg' % os.getpid())
    open(tmpcfg, 'w').write(cfg)
    try:
        res = tlc.run_tlc('MC_Closure.tla', cfg=os.path.basename(tmpcfg), workers=16)
        if res.violated:
            raise tlc.MachineryError('Closure.tla violates %s' % res.violated)
        rep.add_tlc(res, 'P1 Closure: OnePerCode / InOrder / Agreement(Extract, Printed) for every signature (tokens with ? markers, version prefixes)')
        open(tmpcfg, 'w').write(cfg.replace('INIT Init', 'INIT InitW').replace('INVARIANT OnePerCode\nINVARIANT InOrder\nINVARIANT Agrees\n', ''))
        res = tlc.run_tlc('MC_Closure.tla', cfg=os.path.basename(tmpcfg), workers=1, env={'CASES_FILE': cases_file})
    finally:
        os.unlink(tmpcfg)
    sigs = json.load(open(cases_file))
    os.unlink(cases_file)
    # every enumerated signature several times (different value classes, sides, directions); longer ones by sampling
    closures = []
    reps = ctx.pick(3, 6)
    for s in sigs:
        for _ in range(reps if len(s) else 1):
            closures.append(make_closure(s, len(closures), r))
    for _ in range(ctx.pick(400, 4000)):
        n = r.choice([3, 4, 5, 8, 12, 20])
        s = list(r.choice(['', '2', '13']))
        for _ in range(n):
            c = r.choice('iufsonah')
            s += (['?'] if c in 'soan' and r.random() < 0.3 else []) + [c]
        closures.append(make_closure(s, len(closures), r))
    # an array followed by every other kind, on every side (the situation the statement singles out)
    for kind in range(5):
        for c in 'iufsonh':
            closures.append(make_closure(['a', c], len(closures), r, kind))
    rep.extra['signatures_enumerated'] = len(sigs)
    cases = []
    B = 1500
    import concurrent.futures as cf

    def batch(start):
        part = closures[start:start + B]
        # few message names, shared by closures of different interfaces, signatures and directions (as `destroy`, `resize`,
        # `set_selection` are in real protocols); the mock's message table still has one entry per closure
        NAMES = ['resize', 'destroy', 'set_selection', 'configure', 'offer', 'release', 'm']
        part2 = [dict(c, name=NAMES[i % len(NAMES)] if i % 3 else 'm%d' % i, ttype=IFACES[i % 2 * 2] if i % 5 == 0 else c['ttype']) for i, c in enumerate(part)]
        lines, ops = scenario_lines(part2)
        segs, raw = e3.run_scenario(lines, argv=('-C',) if (start // B) % 2 == 0 else (), ncontinue=len(part2) + 20)
        out = []
        for ln, k in ops.items():
            item, other = e3.message_of(segs.get(ln, []))
            out.append({'c': part2[k], 'gdb': gdb_obs(item), 'log': log_obs(part2[k]), 'other': other[:6]})
        if 'end' not in segs:
            raise tlc.MachineryError('the scenario did not run to its end: ' + raw[-600:])
        return out
    with cf.ThreadPoolExecutor(max_workers=8) as ex:
        for out in ex.map(batch, range(0, len(closures), B)):
            cases += out
    for x in cases:
        rep.case(json.dumps(x['c'], sort_keys=True))
    rep.sample({'closure': cases[len(cases) // 2]['c'], 'reported_in_gdb_mode': cases[len(cases) // 2]['gdb']})
    path = os.path.join(tlc.OUT, 'tmp', 'c09-%d.json' % os.getpid())
    json.dump([{'c': x['c'], 'gdb': x['gdb'], 'log': x['log']} for x in cases], open(path, 'w'))
    try:
        res = tlc.run_tlc('TraceClosure.tla', cfg='TraceClosure.cfg', env={'TRACE_FILE': path}, workers=16)
    finally:
        os.unlink(path)
    rep.add_tlc(res, 'P4 TraceClosure: %d closures decoded by the real plugin in the real gdb vs Closure!Extract, and by the real log decoder vs Closure!Printed' % len(cases))
    rep.traces += len(cases)
    for d in tlc.printed_tuples(res.stdout, 'DIFF'):
        x = cases[d[0] - 1]
        asp = tlc.unset(d[2])
        where = d[1]
        got = x['gdb'] if where == 'gdb' else x['log']
        rep.violation(classify(x['c'], where, asp),
                      '%s mode misreports closure %s(%s): %s; reported %s%s' % (where, x['c']['name'], ''.join(x['c']['sig']), sorted(asp),
                                                                              json.dumps(got)[:300], (' | ' + ' / '.join(x['other'])[:200]) if x['other'] else ''),
                      {'kind': 'closure', 'closure': x['c']})
    # exceptions / tracebacks printed by the plugin
    for x in cases:
        if any('Traceback' in l or 'Python Exception' in l for l in x['other']):
            rep.violation('gdb:exception', 'the plugin raised while decoding %s(%s): %s' % (x['c']['name'], ''.join(x['c']['sig']), ' / '.join(x['other'])[:300]),
                          {'kind': 'closure', 'closure': x['c']})
    rep.rule = ('P1: TLC checks on Closure.tla that one argument is reported per type code in order whatever version digits and ? markers '
                'the signature holds, and that Extract agrees with what the print-out retains, for every signature of <= 2/3 argument tokens '
                '(12 tokens, 3 version prefixes); P4: each signature is filled with values of every class several times (ints incl. extremes, '
                'uint >= 2^31, fixed incl. extremes, null/empty/odd strings, null/non-null objects with and without declared interface, typed '
                'and untyped new ids, arrays of 0/1/3/4 elements, fds; five call paths: client/server receive via invoke/dispatch, send, '
                'queue), plus sampled signatures up to 20 arguments; the real plugin decodes them inside the real gdb from a mock libwayland, '
                'the real log decoder decodes the printer model\'s line for the same closure, TLC compares both with the specification. '
                'A case is one closure.')
    rep.assumptions = ['harness/mockwl.c reproduces the member names and frame shapes of libwayland 1.23 that the plugin reads',
                       'gdb 13 itself; the printer model stands in for wl_closure_print']
    # whole sessions of closures of the shipped interfaces in the real gdb: each is reported as log mode would report the line
    # libwayland prints for it (names, declared interfaces of null objects and kinds included)
    import re as _re
    from props import c15
    _rx = _re.compile(r'^(rec|shown)\.(arg\.(name|nil|kind|value|new|obj\.(id|type))|name|dir|nargs|target\.(id|type))$')
    c15.real_gdb_sessions(ctx, rep, rel=lambda a: bool(_rx.match(a)), n=ctx.pick(6, 50), salt=104729, tag='real-gdb-report', destroy=0.03,
                           extra=[c15.null_objects_session(False), c15.null_objects_session(True)])
    return rep


def replay(ctx, data):
    c = dict(data['closure'], name='m0')
    lines, ops = scenario_lines([c])
    segs, raw = e3.run_scenario(lines)
    for ln in ops:
        print('\n'.join(e3.interesting(segs.get(ln, []))))
    print('log mode:', json.dumps(log_obs(c)))
    return True
