"""Observation maps: which differing aspects (spec/TraceSession.tla) belong to which property."""
import re

MAPS = {
    # every mention attributed to the right incarnation; creation only by new-id arguments
    'C02': r'^(rec|shown|stopped)\.(target|arg\.obj|dest)\.(id|type|gen)$|^(rec|shown|stopped)\.arg\.new$|^db\.(ids|count|type)$',
    # lifetimes
    'C03': r'^db\.(alive|ct|dt)$|^(rec|shown|stopped)\.(dest|dest\.(id|type|gen)|life)$',
    # connection attribution and isolation
    'C04': r'^notice(\.closed)?$|^conns\.|^connline\.|^selected$|^(shown)\.conn$|^shape\.(want\.(new|closed|connline)|missing\.(new|closed|connline)|extra\.(new|closed|connline))|^shape\.want\.\w+\.got\.connline',
    # live view = matching messages, all recorded
    'C06': r'^shape\.(want\.msg|missing\.msg|extra\.msg|want\.sep\.got\.msg)|^recorded$|^shown\.(name|dir|nargs|target\.id)$|^selected$',
    # decoration from the protocol descriptions
    'C07': r'^(rec|shown|stopped)\.arg\.(name|labels|nil)$',
    # one item per line, in order, unaltered
    'C08': r'^shape\.|^junk$',
    # list
    'C11': r'^counts$|^none\.n$|^shape\.|^shown\.(name|dir|nargs|target\.id|conn)$|^info$|^selected$',
    # accumulation
    'C12': r'^filter(\.len)?$|^break(\.len)?$|^info$|^shape\.(want|missing|extra)\.(error|info)',
    # times and separators
    'C16': r'^(shown|rec)\.time$|^sep\.gap$|^shape\.(want\.sep|missing\.sep|extra\.sep|want\.msg\.got\.sep)|^(shown)\.life$',
    # decoding (argument kinds and values, names, direction)
    'C01': r'^(rec|shown)\.(arg\.(kind|value)|nargs|name|dir|target\.(id|type))$',
    # labels unambiguous and usable as matchers
    'C14': r'^filter$|^break$|^(shown|stopped)\.(target|arg\.obj|dest)\.gen$|^notice(\.closed)?$|^conns\.name$|^counts$|^none\.n$|^shape\.|^shown\.(name|dir|nargs|target\.id|conn)$',
    # breakpoints: halting, notices, what GDB is told to do
    'C10': r'^halt$|^exec$|^shape\.(want\.stopped|missing\.stopped|extra\.stopped|want\.\w+\.got\.stopped)|^stopped\.(name|dir|nargs|target\.id)$|^break(\.len)?$|^selected$',
    # GDB mode follows libwayland's connections
    'C15': r'^raised$|^notice(\.closed)?$|^conns\.|^shown\.conn$|^shape\.(want|missing|extra)\.(new|closed|warning)|^shape\.want\.\w+\.got\.(new|closed|warning)|^(rec|shown)\.(target|arg\.obj)\.gen$',
}


def relevant(prop):
    rx = re.compile(MAPS[prop])
    return lambda a: bool(rx.search(a))
