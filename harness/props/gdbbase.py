"""Shared by C10 / C15: generators of GDB-level event sequences and the E3-lite runner."""
import random
import e3lite, gen, mrender, mcreplay, protoextract, sessionprop, framework
from props import sessbase

SPEC = ('TraceGdb.tla', 'TraceGdb.cfg')


def runner(trace, render):
    return e3lite.run(trace, render)


def gdb_session(seed, n, quit_at_end=True, cmd_rate=0.2, destroy_rate=0.12, init_break=0.5, exits=0.0):
    r = random.Random(seed)
    d = protoextract.load()
    addrs = ['gdb_conn:0x5555aa10', 'gdb_conn:0x5555bb20', 'gdb_conn:0x7ffff0c0'][:r.randint(1, 3)]
    live = {}
    ev = []
    t = 5000
    mg = gen.MatcherGen(r, 1)
    nconn = 0
    for _ in range(n):
        t += r.choice([1, 40, 500, 1000001])
        c = r.random()
        if c < cmd_rate:
            cmd = mg.command(max(1, nconn))
            ev.append({'in': {'e': 'invoke', 'cmd': cmd}})
            if cmd['c'] == 'quit':
                break
            continue
        if exits and r.random() < exits:
            ev.append({'in': {'e': 'exit'}})       # the program exits (and is run again: later events are of the new run)
            continue
        a = r.choice(addrs)
        if c < cmd_rate + destroy_rate:
            k = r.random()
            target = a if k < 0.6 else r.choice(addrs + ['gdb_conn:0xdeadbeef'])
            ev.append({'in': {'e': 'destroy', 'addr': target}})
            live.pop(target, None)
            continue
        if a not in live:
            side = r.random() < 0.4
            live[a] = gen.ConnGen(r, a, side, d['proto'], d['kinds'], set(d['amb_msgs']), [i for i in gen.CORE_IFACES if i in d['proto']])
            if r.random() < 0.25:
                live[a].started = True       # first message is not get_registry: role unknown
            nconn += 1
        m = live[a].next(t)
        mg.learn(m, [1] * nconn)
        ev.append({'in': {'e': 'hit', 'addr': a, 'thread': r.choice([1, 1, 1, 2]), 't': t, 'm': m['m']}})
    init = {'show': True, 'hasf': False, 'hasb': False}
    if r.random() < init_break:
        init['hasb'] = True
        init['b'] = mg.top()
    return {'init': init, 'events': ev}


def gdb_batch(ctx, rep, prop_relevant, n, salt, **kw):
    """the same property through GDB mode: sessions of hits, destructions and `wl ...` commands run by the real plugin (E3-lite),
    validated by TraceGdb, judged on the property's own aspects"""
    def it():
        for k in range(n):
            opts = dict(cmd_rate=0.25, destroy_rate=0.04, init_break=0.3, exits=0.03)
            opts.update(kw)
            yield gdb_session(ctx.seed * salt + k, ctx.rnd.randint(20, 50), quit_at_end=False, **opts), {'dialect': 'new'}, 'gdb-mode'
    sessionprop.run_sessions(ctx, rep, it(), prop_relevant, runner=runner, spec=SPEC, label='GDB mode')


def model_traces(ctx, rep, sample, maxlen):
    seqs, r = mcreplay.behaviours(rep, 'MC_Gdb.tla', 'MC_Gdb.cfg', 'GDB events on two addresses / two threads with commands', override={'MaxLen': maxlen})
    total = len(seqs)
    if len(seqs) > sample:
        seqs = ctx.rnd.sample(seqs, sample)
    rep.extra.setdefault('model_behaviours', {})['MC_Gdb.cfg'] = {'maximal_behaviours': total, 'replayed': len(seqs)}
    init = {'show': True, 'hasf': False, 'hasb': True,
            'b': mrender.pat_full(name=mrender.W('sync'))}
    for s in seqs:
        yield {'init': dict(init), 'events': [{'in': e} for e in s]}, {'dialect': 'new'}, 'model:MC_Gdb'


def run_property(ctx, prop, rule, sessions, relevant, classify=None):
    rep = framework.Report(ctx, 'model_checking')
    rep.rule = rule
    mcreplay.model_check(rep, 'MC_Gdb.tla', 'MC_Gdb.cfg', 'GdbSession: GStateOk, GStepOk (HaltIff, CommandOutcome, Untouched, FreshOnReuse, CloseOnDestroy)')
    sessionprop.run_sessions(ctx, rep, sessions(rep), relevant, runner=runner, spec=SPEC, classify=classify)
    rep.assumptions = list(sessbase.ASSUME) + ['E3-lite: the real plugin.py is stepped against a stand-in gdb module (thread number, execute, base classes); '
                                               'the closure decoding half of GDB mode is covered by C09 in the real gdb']
    return rep
