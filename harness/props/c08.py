"""C08 - no input line is lost, reordered or altered; output keeps pace with input."""
import copy
import gen, printer, sessionprop
from props import sessbase
from props.common import relevant


def truncations(trace, render, rnd, points):
    """input that stops at any point: after k lines, possibly in the middle of line k+1 (no newline at the end)"""
    evs = [e for e in trace['events'] if e['in']['e'] in ('msg', 'junk')]
    for _ in range(points):
        k = rnd.randint(0, len(evs))
        t = {'init': dict(trace['init']), 'events': copy.deepcopy([{'in': e['in']} for e in evs[:k]])}
        if k < len(evs) and rnd.random() < 0.7:
            nxt = evs[k]['in']
            line = printer.line(nxt, **render) if nxt['e'] == 'msg' else nxt['text']
            cut = rnd.randint(0, len(line))
            part = line[:cut]
            if part != line and nxt['e'] == 'msg' and part.strip().endswith(')'):
                # a cut right after a `)` inside a string argument leaves text that is itself a (different) complete message
                # line: what it denotes is not this generator's business
                part = part.strip()[:-1]
            if part == line and nxt['e'] == 'msg':
                t['events'].append({'in': dict(copy.deepcopy(nxt), nonl=True, line=line)})   # complete line, no newline
            elif part.strip() != '' or part != '':
                t['events'].append({'in': {'e': 'junk', 'text': part.strip(), 'raw': part, 'nonl': True}})
        t['events'].append({'in': {'e': 'eof'}})
        yield t


def sessions(ctx):
    def it(rep):
        for cfg, show in (('MC_Session_lines.cfg', True), ('MC_Session_lines_sup.cfg', False)):
            yield from sessbase.model_sessions(ctx, rep, cfg, 'message / non-message lines and end of input at every point',
                                               ctx.pick(600, 5000), init={'show': show, 'hasf': False, 'hasb': False})
        for k in range(ctx.pick(120, 1200)):
            # every third session: all shipped interfaces and messages by which a client names itself (titles, application ids -
            # empty ones included), which the tool treats specially after decoding
            g = gen.SessionGen(ctx.seed * 86028121 + k, nconn=(1, 3), nmsg=(10, 40), junk=0.35, core=(True if k % 3 else None), unresolved=0.08,
                               titles=(0.0 if k % 3 else 0.2))
            s = g.session()
            if k % 4 == 1:
                # very long lines (a message on the wire is at most 4096 bytes, its printed line can be longer; chatter is not limited)
                for e in s['events']:
                    strs = [a for a in e['in'].get('m', {}).get('args', []) if a['k'] == 'str' and e['in'].get('m', {}).get('name') not in ('bind',)]
                    if strs:
                        strs[0]['s'] = 'long text ' * ctx.rnd.choice([410, 900]) + 'end'
                        break
                junk = [e for e in s['events'] if e['in']['e'] == 'junk']
                if junk:
                    junk[0]['in']['text'] = 'chatter ' * 800 + '.'
            render = {'dialect': ctx.rnd.choice(['old', 'new'])}
            yield s, render, 'random-chatter'
            for t in truncations(s, render, ctx.rnd, ctx.pick(3, 6)):
                yield t, render, 'truncated'
    return it


def run(ctx):
    rep = sessbase.run_property(ctx, 'C08',
        'P1: TLC checks OneItemPerLine / announce-once / closed-at-EOF over all streams of message and non-message lines with end '
        'of input at every point, for both settings of --supress; P2: replayed through the tool, where the input file object is '
        'the observation point (what was written is collected at each readline() call, so late output is a mismatch); P3: random '
        'streams with chatter, blank lines, and truncation at random byte positions (partial last line without newline). The '
        'sequence of items per input line is compared with Session!Step by TLC.',
        [('MC_Session_lines.cfg', 'C08 lines'), ('MC_Session_lines_sup.cfg', 'C08 lines, --supress')], sessions(ctx))
    # ... and as a real process in file mode
    sessbase.process_batch(ctx, rep, ['junk', 'msg', 'text'], ctx.pick(12, 120), 1000433, junk=0.35, show=None)
    return rep


def replay(ctx, data):
    return sessionprop.replay_session(ctx, data, relevant('C08'))
