"""C08 - no input line is lost, reordered or altered; output keeps pace with input."""
import copy
import gen, printer, sessionprop
from props import sessbase
from props.common import relevant


def truncations(trace, render, rnd, points):
    """input that stops at any point: after k lines, possibly in the middle of line k+1 (no newline at the end)"""
    evs = [e for e in trace['events'] if e['in']['e'] in ('msg', 'junk')]
    for _ in range(points):
        k = rnd.randint(0, len(evs))
        t = {'init': dict(trace['init']), 'events': copy.deepcopy([{'in': e['in']} for e in evs[:k]])}
        if k < len(evs) and rnd.random() < 0.7:
            nxt = evs[k]['in']
            line = printer.line(nxt, **render) if nxt['e'] == 'msg' else nxt['text']
            cut = rnd.randint(0, len(line))
            part = line[:cut]
            if part != line and nxt['e'] == 'msg' and part.strip().endswith(')'):
                # a cut right after a `)` inside a string argument leaves text that is itself a (different) complete message
                # line: what it denotes is not this generator's business
                part = part.strip()[:-1]
            if part == line and nxt['e'] == 'msg':
                t['events'].append({'in': dict(copy.deepcopy(nxt), nonl=True, line=line)})   # complete line, no newline
            elif part.strip() != '' or part != '':
                t['events'].append({'in': {'e': 'junk', 'text': part.strip(), 'raw': part, 'nonl': True}})
        t['events'].append({'in': {'e': 'eof'}})
        yield t


def sessions(ctx):
    def it(rep):
        for cfg, show in (('MC_Session_lines.cfg', True), ('MC_Session_lines_sup.cfg', False)):
            yield from sessbase.model_sessions(ctx, rep, cfg, 'message / non-message lines and end of input at every point',
                                               ctx.pick(600, 5000), init={'show': show, 'hasf': False, 'hasb': False})
        for k in range(ctx.pick(120, 1200)):
            # every third session: all shipped interfaces and messages by which a client names itself (titles, application ids -
            # empty ones included), which the tool treats specially after decoding
            g = gen.SessionGen(ctx.seed * 86028121 + k, nconn=(1, 3), nmsg=(10, 40), junk=0.35, core=(True if k % 3 else None), unresolved=0.08,
                               titles=(0.0 if k % 3 else 0.2))
            s = g.session()
            if k % 4 == 1:
                # very long lines (a message on the wire is at most 4096 bytes, its printed line can be longer; chatter is not limited)
                for e in s['events']:
                    strs = [a for a in e['in'].get('m', {}).get('args', []) if a['k'] == 'str' and e['in'].get('m', {}).get('name') not in ('bind',)]
                    if strs:
                        strs[0]['s'] = 'long text ' * ctx.rnd.choice([410, 900]) + 'end'
                        break
                junk = [e for e in s['events'] if e['in']['e'] == 'junk']
                if junk:
                    junk[0]['in']['text'] = 'chatter ' * 800 + '.'
            render = {'dialect': ctx.rnd.choice(['old', 'new'])}
            yield s, render, 'random-chatter'
            for t in truncations(s, render, ctx.rnd, ctx.pick(3, 6)):
                yield t, render, 'truncated'
    return it


def run(ctx):
    rep = sessbase.run_property(ctx, 'C08',
        'P1: TLC checks OneItemPerLine / announce-once / closed-at-EOF over all streams of message and non-message lines with end '
        'of input at every point, for both settings of --supress; P2: replayed through the tool, where the input file object is '
        'the observation point (what was written is collected at each readline() call, so late output is a mismatch); P3: random '
        'streams with chatter, blank lines, and truncation at random byte positions (partial last line without newline). The '
        'sequence of items per input line is compared with Session!Step by TLC.',
        [('MC_Session_lines.cfg', 'C08 lines'), ('MC_Session_lines_sup.cfg', 'C08 lines, --supress')], sessions(ctx))
    # ... and as a real process in file mode
    sessbase.process_batch(ctx, rep, ['junk', 'msg', 'text'], ctx.pick(12, 120), 1000433, junk=0.35, show=None)
    process_bytes(ctx, rep)
    return rep


def process_bytes(ctx, rep):
    """lines with bytes that are not valid UTF-8, through the real process (file and pipe mode, standard output a pipe): one
    item per line, in input order - compared with the same lines, undecodable bytes replaced, fed line by line in process"""
    import os, tempfile, shutil
    import e1, tlc
    from props import c13
    tmp = tempfile.mkdtemp(prefix='c08-', dir=os.path.join(tlc.OUT, 'tmp'))
    try:
        for j, (b1, b2) in enumerate([(b'caf\xe9 window ready', b'caf\xe9_manager_v1'), (b'\xff\xfe\xfd', b'x\x80y'), (b'ok \xc3( broken', b'\xe2\x82'),
                                      (b'plain chatter', b'tail \xc0\xaf')][:ctx.pick(3, 4)]):
            blines = [b'[1000.100]  -> wl_display@1.get_registry(new id wl_registry@2)', b'app: ' + b1,
                      b'[1000.200]  -> wl_registry@2.bind(1, "' + b2 + b'", 1, new id [unknown]@3)', b'more ' + b1,
                      b'[1000.300]  -> wl_display@1.sync(new id wl_callback@4)', b1, b'[1000.400] wl_callback@4.done(7)']
            dec = [l.decode('utf-8', 'replace') for l in blines]
            ref = {'init': dict(sessbase.NOFILTER), 'events': [{'in': {'e': 'line', 'raw': l}} for l in dec] + [{'in': {'e': 'eof'}}]}
            e1.run(ref, render={'dialect': 'new'})
            if 'escaped' in ref:
                continue
            want = c13.norm([c13.key_of(i) for e in ref['events'] for i in e['obs']['items']])
            f = os.path.join(tmp, 'b%d.log' % j)
            open(f, 'wb').write(b'\n'.join(blines) + b'\n')
            for mode, args, stdin in (('file', ['-C', '-l', f], b'quit\n'), ('pipe', ['-C', '-p'], b'\n'.join(blines) + b'\n')):
                rc, out, err = c13.run_tool(args, stdin)
                items, _ = c13.items_of(out)
                got = c13.norm([c13.key_of(i) for i in items])
                rep.case('process-bytes:%s:%d' % (mode, j))
                if got != want:
                    first = next((i for i, (a, b) in enumerate(zip(got, want)) if a != b), min(len(got), len(want)))
                    rep.violation('process-bytes:' + mode, '%s mode as a real process: item %d is %s, line by line it is %s (%d vs %d items)'
                                  % (mode, first, got[first:first + 1], want[first:first + 1], len(got), len(want)),
                                  {'kind': 'process-bytes', 'lines_hex': [l.hex() for l in blines], 'mode': mode})
    finally:
        shutil.rmtree(tmp, ignore_errors=True)


def replay(ctx, data):
    if data.get('kind') == 'process-bytes':
        print([bytes.fromhex(h) for h in data['lines_hex']])
        return True
    return sessionprop.replay_session(ctx, data, relevant('C08'))
