"""C10 - GDB halts the program at a message iff it matches the breakpoint matcher."""
import random
import e1, framework, sessionprop
from props import gdbbase
from props.common import relevant


def terminal_ui(ctx, rep):
    """file / run mode: the interactive prompt keeps prompting until `resume` or `quit`"""
    m = e1.mods()
    from frontends.tui import TerminalUI
    r = ctx.rnd
    WORDS = ['help', 'list', 'filter wl_surface', 'breakpoint !', 'connection', 'bogus', '', 'matcher x', 'l ~ 2', 'wl help',
             'resume', 'quit', 'r', 'q', 'res', 'wlresume', 'wl quit', 'w r']
    STOP = {'resume', 'quit', 'r', 'q', 'res', 'wlresume', 'wl quit', 'w r'}
    for k in range(ctx.pick(300, 3000)):
        script = [r.choice(WORDS) for _ in range(r.randint(1, 9))] + [r.choice(['resume', 'quit'])]
        want = next(i for i, w in enumerate(script) if w in STOP) + 1
        S = e1.Session()
        asked = []

        def input_func(prompt, script=script, asked=asked):
            asked.append(prompt)
            if len(asked) > len(script):
                raise EOFError()
            return script[len(asked) - 1]
        ui = TerminalUI(S.ctl, S.ctl, input_func)
        try:
            ui.run_until_stopped()
        except EOFError:
            pass
        rep.case('prompt:' + '|'.join(script))
        if len(asked) != want:
            rep.violation('prompt-count', 'the prompt was issued %d times for the command script %r; the first resume/quit is number %d'
                          % (len(asked), script, want), {'kind': 'prompt', 'script': script})
    rep.extra['prompt_scripts'] = ctx.pick(300, 3000)


def process_prompts(ctx, rep):
    """file mode as a real process: after the log is read - whatever it held: messages, only chatter, nothing at all - the
    prompt is issued once per command until the first resume / quit"""
    import os, subprocess, tempfile, shutil
    import e2, tlc
    r = ctx.rnd
    LOGS = {'ordinary': '[1000.000]  -> wl_display@1.get_registry(new id wl_registry@2)\n[1000.100] wl_registry@2.global(1, "wl_compositor", 4)\n',
            'chatter-only': 'starting up\nno wayland here\n', 'empty': '', 'blank-lines': '\n\n'}
    WORDS = ['help', 'list', 'filter wl_surface', 'breakpoint !', 'connection', 'bogus', 'matcher x', 'l ~ 2']
    STOP = ['resume', 'quit', 'r', 'q']
    tmp = tempfile.mkdtemp(prefix='c10-', dir=os.path.join(tlc.OUT, 'tmp'))
    try:
        n = 0
        for name, text in LOGS.items():
            log = os.path.join(tmp, name + '.log')
            open(log, 'w').write(text)
            for k in range(ctx.pick(2, 8)):
                script = [r.choice(WORDS) for _ in range(r.randint(0, 4))] + [r.choice(STOP)] + [r.choice(WORDS + STOP) for _ in range(r.randint(0, 2))]
                want = next(i for i, w in enumerate(script) if w in STOP) + 1
                try:
                    p = subprocess.run([e2.PY, os.path.join(e1.REPO, 'main.py'), '-C', '-l', log], cwd=e1.REPO, env=e2.ENV, input=('\n'.join(script) + '\n').encode(),
                                       stdout=subprocess.PIPE, stderr=subprocess.PIPE, timeout=60)
                except subprocess.TimeoutExpired:
                    rep.violation('process-prompt:hang', 'main.py -l %s does not come back for the commands %r' % (name, script), {'kind': 'prompt', 'script': script})
                    continue
                n += 1
                rep.case('process-prompt:%s:%s' % (name, '|'.join(script)))
                got = p.stdout.decode('utf-8', 'replace').count(e2.PROMPT)
                if got != want or p.returncode != 0:
                    rep.violation('process-prompt-count:' + name, 'main.py -l <%s log> issued the prompt %d times (exit status %s) for the commands %r; the first '
                                  'resume/quit is number %d: %s' % (name, got, p.returncode, script, want, p.stderr.decode('utf-8', 'replace')[-200:]),
                                  {'kind': 'prompt', 'script': script})
        rep.extra['process_prompt_sessions'] = n
    finally:
        shutil.rmtree(tmp, ignore_errors=True)


def gdb_walk(ctx, rep, k):
    """The real plugin in the real gdb: a scenario of closures on several connections runs under a breakpoint matcher; a gdb
    command file probes where the program is halted (`print g_current`), types commands there and resumes.  The recorded
    walk (hits with halt / no halt, commands at the halts) is returned as a TraceGdb trace."""
    import random, re
    import e3, mrender
    from props import c09
    r = random.Random(ctx.seed * 1299709 + k)
    names = ['resize', 'destroy', 'configure', 'offer', 'release', 'motion']
    closures = []
    n = r.randint(12, 30)
    for i in range(n):
        sig = [r.choice('iufsh') for _ in range(r.randint(0, 3))]
        c = c09.make_closure(sig, i, r, kind=r.choice([0, 1, 3]))
        c['name'] = r.choice(names)
        closures.append(c)
    lines, ops = c09.scenario_lines(closures)
    # connection slot of each closure: scenario_lines uses k % 3
    bname = r.choice(names)
    btext = r.choice(['.' + bname, '.[%s, %s]' % (bname, r.choice(names)), '(5)', '.' + bname + ' ! (0)'])
    bast = {'.': None}
    cmds = ['run']
    script = []      # what is typed at each halt
    for h in range(n + 2):
        at = ['print g_current']
        extra = r.choice([[], [], ['wl list ~ 1'], ['wl help'], ['wl bogus'], ['wl breakpoint .%s' % r.choice(names)], ['wl connection B'], ['wl connection all']])
        at += extra
        at.append(r.choice(['wlresume', 'wl resume', 'wl r']))
        script.append(extra)
        cmds += at
    segs, raw = e3.run_scenario(lines, argv=('-C', '-b', btext), commands=cmds)
    # where the program was found halted: the probe prints the scenario line of the operation in progress (gdb prints it on
    # its stdout, the plugin writes to stderr: only the values are used, never their position among the other lines; after
    # the program has finished the probe reads 0 or -1 and is ignored)
    probes = [int(x) for x in re.findall(r'^\$\d+ = (\d+)$', raw, re.M) if int(x) > 0]
    return closures, ops, segs, probes, script, btext, raw


def gdb_walks(ctx, rep):
    """halting observed in the real gdb, judged by Matcher!Sem through TraceGdb"""
    import json as _json
    import e3, lexer, mrender, tracecheck
    from props import c09
    traces, metas = [], []
    for k in range(ctx.pick(6, 40)):
        closures, ops, segs, probes, script, btext, raw = gdb_walk(ctx, rep, k)
        # the breakpoint matcher as a tree (the texts above are fixed shapes)
        def name_pat(nm):
            return mrender.pat_full(name=mrender.W(nm))
        if btext.startswith('.['):
            a, b = btext[2:-1].split(', ')
            bast = mrender.pat_full(name={'k': 'list', 'pos': [mrender.W(a), mrender.W(b)], 'neg': []})
        elif btext == '(5)':
            bast = mrender.pat_full(args=mrender.args([mrender.arg({'k': 'int', 'v': 5})]))
        elif ' ! ' in btext:
            bast = mrender.lst([name_pat(btext.split(' ! ')[0][1:])], [mrender.pat_full(args=mrender.args([mrender.arg({'k': 'int', 'v': 0})]))])
        else:
            bast = name_pat(btext[1:])
        events = []
        halts = list(probes)
        hidx = 0
        ok = True
        for ln in sorted(ops):
            c = closures[ops[ln]]
            ev = c09.abstract_line(c)
            m = ev['m']
            for a in m['args']:
                if a['k'] == 'uint':
                    a['k'] = 'int'
                    if a['v'] >= 2 ** 31:
                        a['v'] -= 2 ** 32
            if c['kind'] in (3, 4):
                m['ttype'] = ''
            for a, ty in zip(m['args'], c['types']):
                if a['k'] == 'obj':
                    a['type'] = ty
            item, other = e3.message_of(segs.get(ln, []))
            items = []
            for l in e3.interesting(segs.get(ln, [])):
                it = lexer.lex_out(l)
                if it['k'] in ('text',) and l.startswith('$'):
                    continue
                if it['k'] == 'text' and (l.startswith('Usage') or l.startswith('Commands') or l.startswith('  (gdb)') or l.startswith('Help with')
                                          or l.startswith('(') or 'Error in sourced' in l or 'not being run' in l or l.startswith('Run till')):
                    continue
                items.append(it)
            halted = hidx < len(halts) and halts[hidx] == ln
            # items printed while executing the closure: up to the halt; what the commands print comes after the probe
            hit_items = [i for i in items if i['k'] in ('new', 'msg', 'stopped', 'sep', 'warning', 'closed')]
            events.append({'in': {'e': 'hit', 'addr': 'conn%d' % (ops[ln] % 3), 'thread': 1, 't': 1000 + ln, 'm': m},
                           'obs': {'items': [i for i in hit_items if i['k'] != 'sep'], 'halt': halted}})
            if halted:
                for text in script[hidx]:
                    word = text.split()[1]
                    if word == 'breakpoint':
                        cmd = {'e': 'cmd', 'c': 'break', 'hasarg': True, 'ok': True, 'ast': name_pat(text.split('.')[1])}
                    elif word == 'connection':
                        cmd = {'e': 'cmd', 'c': 'conn', 'arg': text.split()[2]}
                    elif word == 'list':
                        cmd = {'e': 'cmd', 'c': 'other', 'text': 'list ~ 1'}
                    else:
                        cmd = {'e': 'cmd', 'c': 'other', 'text': word}
                    events.append({'in': {'e': 'invoke', 'cmd': cmd}, 'obs': {'items': [{'k': 'text'}], 'exec': 'none', 'halt': True}})
                events.append({'in': {'e': 'invoke', 'cmd': {'e': 'cmd', 'c': 'resume'}}, 'obs': {'items': [], 'exec': 'continue', 'halt': False}})
                hidx += 1
        if hidx != len(halts):
            rep.violation('gdb:halt-elsewhere', 'in the real gdb the program was found halted at scenario lines %s, which are not all closures in order' % halts,
                          {'kind': 'walk', 'k': k})
        traces.append({'init': {'show': True, 'hasf': False, 'hasb': True, 'b': bast}, 'events': events})
        metas.append((k, btext))
        rep.case('gdb-walk:%d:%s' % (k, btext))
    # output of commands is free-form here: only halting and the notices of the hits are judged
    for tr in traces:
        for e in tr['events']:
            if e['in']['e'] == 'invoke':
                e['obs'].pop('items')
                e['obs']['items'] = []
                e['in']['cmd'] = dict(e['in']['cmd'])
    v = tracecheck.validate_parallel(traces, name='c10gdb', spec=('TraceGdb.tla', 'TraceGdb.cfg'))
    rep.add_tlc(v, 'TraceGdb on %d walks of the real plugin in the real gdb (%d events)' % (v.ntraces, v.nsteps))
    rep.traces += v.ntraces
    rel = lambda a: a in ('halt',) or a.startswith('shape.want.stopped') or a.startswith('shape.missing.stopped') or a.startswith('shape.extra.stopped') or a.startswith('stopped.name')
    for t, l, asp in v.failing(rel):
        k, btext = metas[t - 1]
        rep.violation('gdb-walk:' + ','.join(sorted(a for a in asp if rel(a))), 'real gdb walk %d (breakpoint %r): event %d (%s) differs in %s'
                      % (k, btext, l, _json.dumps(traces[t - 1]['events'][l - 1]['in'])[:200], [a for a in asp if rel(a)]), {'kind': 'walk', 'k': k})
    rep.extra['real_gdb_walks'] = len(traces)


def sessions(ctx):
    def it(rep):
        yield from gdbbase.model_traces(ctx, rep, ctx.pick(900, 9000), ctx.pick(4, 5))
        for k in range(ctx.pick(250, 2500)):
            yield gdbbase.gdb_session(ctx.seed * 6700417 + k, ctx.rnd.randint(10, 45), cmd_rate=0.3, destroy_rate=0.05, init_break=0.8), {'dialect': 'new'}, 'random-gdb'
    return it


def run(ctx):
    rep = gdbbase.run_property(ctx, 'C10',
        'P1: TLC checks HaltIff (halt iff the breakpoint matcher selects the message, on the selected connection; a `Stopped at` notice '
        'iff halted) and CommandOutcome (resume -> continue, quit -> quit, anything else stays halted) over all event sequences (<= 5) on '
        'two connection addresses with 11 commands; P2: its behaviours are replayed through the real Plugin (E3-lite); P3: random event '
        'sequences with generated breakpoint matchers, connection selection and commands; stop()\'s return value, the executed GDB '
        'command, notices and matcher state are compared with GdbSession!GStep by TLC. The TerminalUI prompt loop is driven with '
        'scripted input: the number of prompts must equal the position of the first resume/quit.',
        sessions(ctx), relevant('C10'))
    terminal_ui(ctx, rep)
    process_prompts(ctx, rep)
    gdb_walks(ctx, rep)
    return rep


def replay(ctx, data):
    if data.get('kind') == 'prompt':
        print(data['script'])
        return True
    if data.get('kind') == 'walk':
        closures, ops, segs, probes, script, btext, raw = gdb_walk(ctx, None, data['k'])
        print('breakpoint matcher', btext, 'halts at scenario lines', probes)
        print(raw[-3000:])
        return True
    return sessionprop.replay_session(ctx, data, relevant('C10'), runner=gdbbase.runner, spec=gdbbase.SPEC)
