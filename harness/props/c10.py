"""C10 - GDB halts the program at a message iff it matches the breakpoint matcher."""
import random
import e1, framework, sessionprop
from props import gdbbase
from props.common import relevant


def terminal_ui(ctx, rep):
    """file / run mode: the interactive prompt keeps prompting until `resume` or `quit`"""
    m = e1.mods()
    from frontends.tui import TerminalUI
    r = ctx.rnd
    WORDS = ['help', 'list', 'filter wl_surface', 'breakpoint !', 'connection', 'bogus', '', 'matcher x', 'l ~ 2', 'wl help',
             'resume', 'quit', 'r', 'q', 'res', 'wlresume', 'wl quit', 'w r']
    STOP = {'resume', 'quit', 'r', 'q', 'res', 'wlresume', 'wl quit', 'w r'}
    for k in range(ctx.pick(300, 3000)):
        script = [r.choice(WORDS) for _ in range(r.randint(1, 9))] + [r.choice(['resume', 'quit'])]
        want = next(i for i, w in enumerate(script) if w in STOP) + 1
        S = e1.Session()
        asked = []

        def input_func(prompt, script=script, asked=asked):
            asked.append(prompt)
            if len(asked) > len(script):
                raise EOFError()
            return script[len(asked) - 1]
        ui = TerminalUI(S.ctl, S.ctl, input_func)
        try:
            ui.run_until_stopped()
        except EOFError:
            pass
        rep.case('prompt:' + '|'.join(script))
        if len(asked) != want:
            rep.violation('prompt-count', 'the prompt was issued %d times for the command script %r; the first resume/quit is number %d'
                          % (len(asked), script, want), {'kind': 'prompt', 'script': script})
    rep.extra['prompt_scripts'] = ctx.pick(300, 3000)


def sessions(ctx):
    def it(rep):
        yield from gdbbase.model_traces(ctx, rep, ctx.pick(900, 9000), ctx.pick(4, 5))
        for k in range(ctx.pick(250, 2500)):
            yield gdbbase.gdb_session(ctx.seed * 6700417 + k, ctx.rnd.randint(10, 45), cmd_rate=0.3, destroy_rate=0.05, init_break=0.8), {'dialect': 'new'}, 'random-gdb'
    return it


def run(ctx):
    rep = gdbbase.run_property(ctx, 'C10',
        'P1: TLC checks HaltIff (halt iff the breakpoint matcher selects the message, on the selected connection; a `Stopped at` notice '
        'iff halted) and CommandOutcome (resume -> continue, quit -> quit, anything else stays halted) over all event sequences (<= 5) on '
        'two connection addresses with 11 commands; P2: its behaviours are replayed through the real Plugin (E3-lite); P3: random event '
        'sequences with generated breakpoint matchers, connection selection and commands; stop()\'s return value, the executed GDB '
        'command, notices and matcher state are compared with GdbSession!GStep by TLC. The TerminalUI prompt loop is driven with '
        'scripted input: the number of prompts must equal the position of the first resume/quit.',
        sessions(ctx), relevant('C10'))
    terminal_ui(ctx, rep)
    return rep


def replay(ctx, data):
    if data.get('kind') == 'prompt':
        print(data['script'])
        return True
    return sessionprop.replay_session(ctx, data, relevant('C10'), runner=gdbbase.runner, spec=gdbbase.SPEC)
