"""C16 - displayed times are the log's times relative to the first message."""
import copy
import gen, sessionprop
from props import sessbase
from props.common import relevant

# every behaviour is concretised several times: constant shifts, both decimal marks, both dialects
RENDERS = [{'dialect': 'old', 'mark': '.', 'offset': 0}, {'dialect': 'old', 'mark': ',', 'offset': 770203519},
           {'dialect': 'new', 'offset': 4000000000}, {'dialect': 'new', 'offset': 125000 * 80001}]


def sessions(ctx):
    def it(rep):
        for tr, render, lab in sessbase.model_sessions(ctx, rep, 'MC_Session_time.cfg', 'gaps around one second with a filter hiding messages in between',
                                                      ctx.pick(350, 4000), override={'MaxLen': 4},
                                                      init={'show': True, 'hasf': True, 'hasb': False,
                                                            'f': {'k': 'pat', 'form': 'bare', 'conn': {'k': 'any'},
                                                                  'obj': {'k': 'type', 't': {'k': 'w', 'p': list('wl_callback')}}}}):
            first = next((e['in']['t'] for e in tr['events'] if e['in']['e'] == 'msg'), 0)
            # ... and once so that the first time stamp of the log is exactly 0.000
            for rd in RENDERS + [{'dialect': 'old', 'mark': '.', 'offset': -first}, {'dialect': 'new', 'offset': -first}]:
                yield copy.deepcopy(tr), dict(rd), lab
        for k in range(ctx.pick(100, 1000)):
            g = gen.SessionGen(ctx.seed * 982451653 + k, nconn=(1, 2), nmsg=(12, 40), junk=0.05, cmds=0.2, core=True,
                               dy=(k % 2 == 0), with_init_filter=0.5, back=(0.08 if k % 3 == 0 else 0.0))
            s = g.session()
            for rd in ctx.rnd.sample(RENDERS, 2):
                rd = dict(rd)
                if s['events'] and k % 2 == 0:
                    rd['offset'] = (rd['offset'] // 125000) * 125000      # keep float-exact times float-exact
                yield copy.deepcopy(s), rd, 'random-times'
    return it


def run(ctx):
    rep = sessbase.run_property(ctx, 'C16',
        'P1: TLC checks the separator rule (only directly before a shown message, iff the gap to the previously *shown* message '
        'exceeds one second) over all behaviours with gaps {1, 999999, 1000000, 1000001, 2500000} us and a filter hiding the '
        'messages in between; P2: every behaviour is concretised four times (time shifts 0 / 770203519 / 4e9 us / float-exact, '
        'decimal mark . and , , both dialects) and replayed; P3: random sessions with listings. Displayed times (+-1 in the last '
        'digit), separator presence and gap are compared with Session!Step by TLC; exactly one second is judged only for '
        'float-exact time stamps.',
        [('MC_Session_time.cfg', 'C16 times and separators', {'MaxLen': 4})], sessions(ctx))
    # times and separators as GDB mode shows them
    from props import gdbbase
    gdbbase.gdb_batch(ctx, rep, relevant('C16'), ctx.pick(40, 400), 1000393, cmd_rate=0.2, destroy_rate=0.02)
    # ... and as a real process in file mode
    sessbase.process_batch(ctx, rep, ['sep', 'msg'], ctx.pick(12, 120), 1000427)
    return rep


def replay(ctx, data):
    return sessionprop.replay_session(ctx, data, relevant('C16'))
