"""C05 - a matcher selects exactly the messages its documented meaning says."""
import copy, json
import framework, tlc, e1, gen, mrender, sessionprop, tracecheck
from props import sessbase

LEVEL = 'model_checking'
RELEVANT = lambda a: a.startswith('eval.')

SPELLINGS = [('', '', ()), (' ', '', ()), ('', '@', ()), (' ', '#', ()),
             ('', '', ('obj',)), ('', '', ('name',)), ('', '', ('conn',)), (' ', '', ('val',)), ('', '', ('argname',)),
             ('', '', ('arg',)), (' ', '@', ('obj', 'name', 'conn')), ('', '', ('argname', 'val')),
             (' ', '', ('obj', 'name', 'conn', 'val', 'argname', 'arg'))]


def spell_key(sp):
    return 'sp=%r at=%r br=%s' % (sp[0], sp[1], '+'.join(sp[2]) or '-')


def table_check(ctx, rep):
    """P4: TLC enumerates every pattern over the pools and says what it selects; the real matcher must agree in every spelling"""
    r = tlc.run_tlc('MC_Matcher.tla', cfg='MC_Matcher_emit.cfg', workers=1)
    rep.add_tlc(r, 'P4 Matcher!Sem table: every pattern over the component pools x the messages of the fixed session')
    rows = [json.loads(x[0]) for x in tlc.printed_tuples(r.stdout, 'ROW')]
    script = json.loads(tlc.printed_tuples(r.stdout, 'SCRIPT')[0][0])
    trace = sessbase.as_trace(script)
    e1.run(trace, render={'dialect': 'new'})
    S = e1.mods()
    # the real messages of the same session: run again keeping the session object
    sess = e1.Session()
    import printer
    for ev in script:
        cid, msg = S.parse.message(printer.line(ev, dialect='new'))
        if cid not in sess.tagconn:
            sess.tagconn[cid] = 1
            sess.cm.open_connection(0.0, cid, None if ev['m']['name'] != 'get_registry' else not ev['m']['sent'])
        sess.cm.message(cid, msg)
    msgs = sess.hist()
    if len(msgs) != len(script):
        raise tlc.MachineryError('the fixed session of MC_Matcher is not recorded completely by the tool (%d of %d)' % (len(msgs), len(script)))
    if ctx.quick:
        rows = ctx.rnd.sample(rows, 1800)
    n = 0
    for row in rows:
        want = set(row['sel'])
        for sp in (SPELLINGS if not ctx.quick else ctx.rnd.sample(SPELLINGS, 4)):
            text = mrender.r_top(row['p'], mrender.Spelling(*sp))
            n += 1
            rep.case(text)
            try:
                mm = S.matcher.parse(text).simplify()
                got = {j + 1 for j, x in enumerate(msgs) if mm.matches(x)}
            except RuntimeError as e:
                rep.violation('rejected:' + spell_key(sp) if sp[2] else 'rejected', 'the documented matcher %r is rejected: %s' % (text, str(e)[:120]),
                              {'kind': 'table', 'text': text, 'ast': row['p'], 'spelling': sp})
                continue
            if got != want:
                rep.violation('table-differs' + (':' + spell_key(sp) if sp[2] else ''),
                              'matcher %r selects messages %s of the fixed session, Matcher!Sem says %s' % (text, sorted(got), sorted(want)),
                              {'kind': 'table', 'text': text, 'ast': row['p'], 'spelling': sp, 'want': sorted(want), 'got': sorted(got)})
        if len(rep.samples) < 3:
            rep.sample({'matcher': mrender.r_top(row['p']), 'selected_messages_of_fixed_session': row['sel']})
    rep.extra['table_patterns'] = len(rows)
    rep.extra['table_evaluations'] = n


def eval_sessions(ctx):
    """random sessions, then generated matcher trees (nesting depth 2/3) evaluated on every recorded message in several spellings"""
    for k in range(ctx.pick(60, 500)):
        g = gen.SessionGen(ctx.seed * 2147483647 + k, nconn=(1, 3), nmsg=(25, 50), junk=0.0, core=None if k % 3 else True, unresolved=0.06)
        s = g.session()
        evs = [e for e in s['events'] if e['in']['e'] == 'msg']
        mg = gen.MatcherGen(g.r, ctx.pick(2, 3) if k % 2 else 1)
        for e in evs:
            mg.learn(e['in'], [1] * 3)
        for _ in range(ctx.pick(40, 120)):
            ast = mg.top()
            for sp in ctx.rnd.sample(SPELLINGS[:4], 2):
                evs.append({'in': {'e': 'eval', 'ast': ast, 'spell': [sp[0], sp[1], list(sp[2])]}})
        s['events'] = evs
        yield s, {'dialect': ctx.rnd.choice(['old', 'new'])}, 'eval'


def classify(trace, step, aspects):
    return ','.join(sorted(aspects))


def run(ctx):
    rep = framework.Report(ctx, LEVEL)
    r = tlc.run_tlc('MC_Matcher.tla', cfg=ctx.pick('MC_Matcher_quick.cfg', 'MC_Matcher.cfg'), workers=16)
    if r.violated:
        raise tlc.MachineryError('Matcher.tla violates the laws of C05: %s' % r.violated)
    rep.add_tlc(r, 'P1 laws of C05 on Matcher!Sem (star/bang, singleton, union minus exclusions, bare = on/mentions/creates/destroys, '
                   '.new/.destroyed, soundness of the evident constants, accumulation) over all patterns of the pools')
    table_check(ctx, rep)
    sessionprop.run_sessions(ctx, rep, eval_sessions(ctx), RELEVANT, classify=classify, label='eval')
    rep.rule = ('P1: TLC checks the laws the statement lists on Matcher!Sem for every pattern over the component pools (3 conn x 16 obj x 9 '
                'name x 14 args + bare) paired with a second pattern; P4: TLC prints what each pattern selects among the 20 messages of a '
                'fixed session, the real parse().simplify().matches() must agree in up to 11 spellings (white space, @/#, redundant '
                'brackets); P3: generated trees of nesting depth 1-3 are evaluated by the real tool on every message of random sessions '
                'and TLC evaluates Matcher!Sem on its own resolution of the same session. A case is one distinct matcher text.')
    rep.assumptions = list(sessbase.ASSUME) + [
        'argument lists with a vacuous item ((*), (=)) and empty alternatives are not settled by the documentation: not generated',
        'strings containing brackets or quotes inside a matcher are outside the documented grammar: not generated']
    return rep


def replay(ctx, data):
    if data['kind'] == 'table':
        S = e1.mods()
        try:
            mm = S.matcher.parse(data['text']).simplify()
            print('parsed:', repr(mm))
        except RuntimeError as e:
            print('rejected:', e)
            return True
        return True
    return sessionprop.replay_session(ctx, data, RELEVANT)
