"""C19 - everything after -r/-g is forwarded verbatim; everything before is ours."""
import contextlib, io, json, os, sys, types
import framework, tlc, e1

LEVEL = 'model_checking'

# (values that begin with characters an argument parser may treat specially: @ = the tool's own way of writing an object id,
# + and - , = )
MATCHERS = ['wl_surface', '@6', '@6.bind', '@2a, wl_pointer', 'x(title="a b")', '(="a\\b")', '.commit, wl_pointer ! .motion', 'B: 7c', '[wl_pointer ! 55, 62].motion',
            '(="C:\\dir\\new")', "(=\"it's\")", '(="tab\\t")', '*', '!', '(x=0, y=0)', '(="say \\"hi\\"")'.replace('\\"', ''), '(="back\\\\slash")']
BADMATCHERS = ['a.b.c', 'wl_surface@5', '(x', 'a ! b ! c']
CONCRETE = {
    'flag': [['-C'], ['--color'], ['--supress'], ['--verbose'], ['--no-color']],
    'pipe': [['-p'], ['--pipe']],
    # (an empty value still selects the mode: `-l "" -r prog` is two modes)
    'load': [['-l', '/tmp/x.log'], ['--load', 'a b.log'], ['-l', 'C:\\logs\\w.log'], ['-l', 'q"uote.log'], ['-l', ''], ['--load', ''], ['--load='],
             ['--load=x.log'], ['-l', '@args.log'], ['--load', '+x']],
    'filt': [[o, m] for o in ('-f', '--filter') for m in MATCHERS],
    'filtbad': [[o, m] for o in ('-f', '--filter') for m in BADMATCHERS],
    'brk': [[o, m] for o in ('-b', '--break') for m in MATCHERS[:6]],
    'lib': [['--libwayland', '/tmp'], ['--libwayland', '/usr/lib']],
    'run': [['-r'], ['--run']],
    'gdb': [['-g'], ['--gdb']],
    'clrun': [['-Cr']],
    'clgdb': [['-Cg']],
    'clbad': [['-rC'], ['-gC']],
    'word': [['prog'], ['./a.out'], ['x y'], ['weston-terminal']],
}
OPTWORD_AFTER = [['-f'], ['--load'], ['-Cr'], ['--gdb'], ['-r'], ['-g'], ['--run'], ['-x'], ['--'], ['-b'], ['-l'], ['--args'], ['-ex'], ['a"b'], ['c\\d']]
OPTWORD_BEFORE = [['-x'], ['--bogus'], ['-Cx']]


def concretise(argv, r):
    """-> (words, per-token word lists)"""
    toks = []
    seen_marker = False
    for c in argv:
        if c == 'optword':
            w = r.choice(OPTWORD_AFTER if seen_marker else OPTWORD_BEFORE)
        else:
            w = r.choice(CONCRETE[c])
        toks.append(list(w))
        if c in ('run', 'gdb', 'clrun', 'clgdb', 'clbad'):
            seen_marker = True
    return [w for t in toks for w in t], toks


def call_parse_args(words):
    m = e1.mods()
    from frontends.tui import parse_args
    out, err = io.StringIO(), io.StringIO()
    res = {'exc': None, 'code': None, 'args': None}
    try:
        with contextlib.redirect_stdout(out), contextlib.redirect_stderr(err):
            res['args'] = parse_args(['main.py'] + words)
    except SystemExit as e:
        res['exc'], res['code'] = 'exit', e.code
    except RuntimeError as e:
        res['exc'], res['msg'] = 'runtime', str(e)
    except Exception as e:
        res['exc'], res['msg'] = 'other', repr(e)
    res['stdout'] = out.getvalue()
    return res


def gdb_handover(args):
    """what run_gdb would start: (argv for gdb after `-ex CMD`, sys.argv re-created by CMD inside gdb's python)"""
    from backends.gdb_plugin import runner
    captured = {}

    class FakePopen:
        def __init__(self, call_args, env=None):
            captured['call'] = list(call_args)
            self.returncode = 0

        def wait(self):
            return 0
    real = runner.subprocess
    # only the module attribute the runner uses is replaced; `which gdb` and `file` still run for real
    runner.subprocess = types.SimpleNamespace(run=real.run, Popen=FakePopen)
    try:
        with contextlib.redirect_stdout(io.StringIO()):
            runner.run_gdb(args, True)
    finally:
        runner.subprocess = real
    call = captured['call']
    if call[:2] != ['gdb', '-ex'] or not call[2].startswith('python '):
        return call, None
    fake_sys = types.SimpleNamespace(argv=None)
    env = {'__builtins__': {'__import__': lambda name, *a, **k: fake_sys if name == 'sys' else __import__(name, *a, **k),
                            'open': lambda *a, **k: io.StringIO(''), 'exec': lambda *a, **k: None}}
    try:
        exec(call[2][len('python '):], env)
    except Exception as e:
        return call, ('!error', repr(e))
    return call, fake_sys.argv


def real_run_handover(ctx, rep):
    """main.py <our words> -r <program> <words>: the program is really started; what it receives as argv is printed by the
    program itself.  Includes the program given as one word only, with a space in its path."""
    import subprocess, tempfile, shutil, stat
    r = ctx.rnd
    tmp = tempfile.mkdtemp(prefix='c19run-', dir=os.path.join(tlc.OUT, 'tmp'))
    try:
        progs = []
        for d, nm in (('plain', 'dump'), ('my programs', 'dump argv'), ("it's here", 'a"b')):
            os.makedirs(os.path.join(tmp, d), exist_ok=True)
            path = os.path.join(tmp, d, nm)
            with open(path, 'w') as f:
                f.write('#!/bin/sh\nprintf "RUN-ARGV"; for a in "$0" "$@"; do printf "|%s" "$a"; done; printf "\\n"\nexit 7\n')
            os.chmod(path, os.stat(path).st_mode | stat.S_IXUSR)
            progs.append(path)
        WORDS = [[], [], ['a b'], ['-r', '--gdb', '-f', 'x'], ['x"y', 'c\\d', ''], ['-Cr'], ['one two three']]
        OURS = [[], ['-C'], ['--supress'], ['-f', 'wl_surface'], ['-b', '!']]
        for k in range(ctx.pick(10, 60)):
            prog, words, ours = progs[k % len(progs)], WORDS[k % len(WORDS)] if k >= len(progs) else [], r.choice(OURS)
            argv = ours + [r.choice(['-r', '--run'])] + [prog] + words
            rep.case('real-run:' + json.dumps(argv))
            rp = {'kind': 'realrun', 'argv': argv}
            try:
                p = subprocess.run([PY_BIN, os.path.join(e1.REPO, 'main.py')] + argv, cwd=e1.REPO, env=dict(os.environ, LANG='C.UTF-8', LC_ALL='C.UTF-8'),
                                   input=b'quit\n', stdout=subprocess.PIPE, stderr=subprocess.PIPE, timeout=45)
            except subprocess.TimeoutExpired as e:
                # (a program that cannot be started leaves the tool waiting for its output for ever)
                rep.violation('realrun:not-started', 'wayland-debug does not come back within 45 s for %r (a trivial program that exits at once): %s'
                              % (argv, ((e.stdout or b'') + (e.stderr or b'')).decode('utf-8', 'replace')[-300:]), rp)
                continue
            out = p.stdout.decode('utf-8', 'replace')
            got = [ln for ln in out.split('\n') if ln.startswith('RUN-ARGV')]
            want = 'RUN-ARGV|' + '|'.join([prog] + words)
            if not got:
                rep.violation('realrun:not-started', 'the program was not started for %r: %s' % (argv, (out + p.stderr.decode('utf-8', 'replace'))[-300:]), rp)
            elif got[0] != want:
                rep.violation('realrun:argv', 'the program received %r, the forwarded words are %r' % (got[0], want), rp)
            elif p.returncode != 7:
                rep.violation('realrun:status', 'wayland-debug exits with %s, the program exited with 7' % p.returncode, rp)
        rep.extra['real_run_handovers'] = ctx.pick(10, 60)
    finally:
        shutil.rmtree(tmp, ignore_errors=True)


def real_gdb_handover(ctx, rep):
    """main.py <our words> -g <words for gdb>: the real gdb starts the real inner instance; what it sees as sys.argv and what
    gdb itself received are printed from inside gdb and compared"""
    import subprocess
    r = ctx.rnd
    OURS = [[], ['-C'], ['-f', 'wl_surface'], ['-f', 'x(title="a b")'], ['-f', '(="C:\\dir\\new")'], ['-b', '.commit, wl_pointer ! .motion'],
            ['--supress', '-f', "(=\"it's\")"], ['-f', '(="tab\\t")'], ['-C', '-b', 'B: 7c'], ['--libwayland', '/tmp', '-f', '[wl_pointer ! 55, 62].motion']]
    THEIRS = [[], ['-nx'], ['-ex', 'echo hello\\n'], ['-ex', 'python print("-r -f --gdb")'], ['--args', '/bin/true', '-g', '-f', 'x']]
    n = 0
    for k in range(ctx.pick(8, 60)):
        ours = r.choice(OURS)
        marker = r.choice([['-g'], ['--gdb']]) if (not ours or ours[-1] != '-C' or r.random() < 0.5) else None
        if marker is None:
            argv = ours[:-1] + ['-Cg']
            ours_expected = ours[:-1] + ['-C']
        else:
            argv = ours + marker
            ours_expected = ours
        theirs = r.choice(THEIRS)
        probe = ['-batch', '-ex', 'python import sys, json; print("INNER-ARGV " + json.dumps(sys.argv))']
        cmd = [PY_BIN, os.path.join(e1.REPO, 'main.py')] + argv + probe + theirs
        env = dict(os.environ, LANG='C.UTF-8', LC_ALL='C.UTF-8')
        try:
            p = subprocess.run(cmd, cwd=e1.REPO, env=env, stdin=subprocess.DEVNULL, stdout=subprocess.PIPE, stderr=subprocess.STDOUT, timeout=120)
        except subprocess.TimeoutExpired:
            raise tlc.MachineryError('gdb did not finish: %r' % cmd)
        out = p.stdout.decode('utf-8', 'replace')
        n += 1
        rep.case('real-gdb:' + json.dumps(argv + theirs))
        rp = {'kind': 'realgdb', 'argv': argv + probe + theirs}
        inner = None
        for ln in out.split('\n'):
            if ln.startswith('INNER-ARGV '):
                inner = json.loads(ln[len('INNER-ARGV '):])
        want = [os.path.join(e1.REPO, 'main.py')] + ours_expected
        if inner is None:
            rep.violation('realgdb:inner-not-started', 'the instance inside gdb did not come up for %r: %s' % (argv, out[-300:]), rp)
        elif inner != want:
            rep.violation('realgdb:inner-argv', 'the instance inside gdb sees sys.argv = %r, our words are %r' % (inner, want), rp)
        started = [ln for ln in out.split('\n') if ln.startswith('Running subprocess: ')]
        if started:
            try:
                import ast
                call = ast.literal_eval(started[0][len('Running subprocess: '):])
                if call[3:] != probe + theirs:
                    rep.violation('realgdb:forwarded', 'gdb was started with %r, the forwarded words are %r' % (call[3:], probe + theirs), rp)
            except (ValueError, SyntaxError):
                pass
    rep.extra['real_gdb_handovers'] = n


PY_BIN = '/venv/bin/python'


def run(ctx):
    rep = framework.Report(ctx, LEVEL)
    r = ctx.rnd
    m = e1.mods()
    cfg = open(os.path.join(tlc.SPEC, 'CmdLine.cfg')).read()
    if not ctx.quick:
        cfg = cfg.replace('MaxLen = 4', 'MaxLen = 5')
    tmpcfg = os.path.join(tlc.SPEC, '_cmdline_%d.cfg' % os.getpid())
    open(tmpcfg, 'w').write(cfg)
    try:
        res = tlc.run_tlc('CmdLine.tla', cfg=os.path.basename(tmpcfg), workers=16)
        if res.violated:
            raise tlc.MachineryError('CmdLine violates %s' % res.violated)
        rep.add_tlc(res, 'P1 ForwardedVerbatim / FirstWins / ExactlyOneMode over every argv of token classes')
        open(tmpcfg, 'w').write(cfg.replace('INVARIANT ForwardedVerbatim\nINVARIANT FirstWins\nINVARIANT ExactlyOneMode\n', 'INVARIANT Emit\n'))
        res = tlc.run_tlc('CmdLine.tla', cfg=os.path.basename(tmpcfg), workers=1)
    finally:
        os.unlink(tmpcfg)
    rows = tlc.printed_tuples(res.stdout, 'ARGV')
    rep.add_tlc(res, 'P4 CmdLine!Outcome table')
    if ctx.quick:
        rows = [x for x in rows if len(x[0]) <= 2] + r.sample([x for x in rows if len(x[0]) > 2], 6000)
    from frontends.tui import Mode
    MODES = {'run': Mode.RUN, 'gdb': Mode.GDB_RUNNER, 'load': Mode.LOAD_FROM_FILE, 'pipe': Mode.PIPE}
    nh = 0
    for argv, want in rows:
        for _ in range(ctx.pick(1, 3)):
            words, toks = concretise(argv, r)
            rep.case(json.dumps(words))
            got = call_parse_args(words)
            tag = ' '.join(argv)
            rp = {'kind': 'argv', 'words': words, 'classes': argv, 'want': want}
            if got['exc'] == 'other':
                rep.violation('exception:' + want['o'], 'parse_args(%r) raises %s' % (words, got['msg']), rp)
                continue
            o = want['o']
            if o == 'cluster-error':
                if got['exc'] != 'runtime':
                    rep.violation('cluster-accepted', 'a cluster with the marker letter not last is accepted: %r' % words, rp)
            elif o == 'arg-error':
                if not (got['exc'] == 'exit' and got['code'] not in (0, None)):
                    rep.violation('unknown-word-accepted', 'a word before the marker that is not an option is not rejected: %r -> %s' % (words, got['exc']), rp)
            elif o == 'usage':
                if not (got['exc'] == 'exit' and 'usage:' in got['stdout']):
                    rep.violation('no-usage', 'not exactly one mode, but no usage: %r -> %s' % (words, got['exc']), rp)
            elif o == 'bad-matcher':
                if got['exc'] != 'runtime':
                    rep.violation('bad-matcher-ignored', 'a malformed -f/-b value is not reported: %r -> %s' % (words, got['exc']), rp)
            else:
                if got['args'] is None:
                    rep.violation('rejected:' + want['mode'], 'a valid command line is rejected: %r -> %s %s' % (words, got['exc'], got.get('msg', got.get('code'))), rp)
                    continue
                a = got['args']
                nb = want['nbefore']
                before = [w for t in toks[:nb] for w in t]
                fm = nb + 1
                if want['cluster']:
                    before = before + [toks[nb][0][:-1]]
                after = [w for t in toks[fm:] for w in t] if fm <= len(toks) and want['mode'] in ('run', 'gdb') else []
                bad = []
                if a.mode != MODES[want['mode']]: bad.append('mode')
                if list(a.wayland_debug_args) != ['main.py'] + before: bad.append('ours')
                if list(a.command_args) != after: bad.append('forwarded')
                fvals = [t[1] for t in toks[:nb] if t[0] in ('-f', '--filter')]
                bvals = [t[1] for t in toks[:nb] if t[0] in ('-b', '--break')]
                try:
                    fwant = str(m.matcher.parse(fvals[-1]).simplify()) if fvals else str(m.matcher.always)
                    bwant = str(m.matcher.parse(bvals[-1]).simplify()) if bvals else str(m.matcher.never)
                    if str(a.filter_matcher) != fwant: bad.append('filter')
                    if str(a.stop_matcher) != bwant: bad.append('break')
                except RuntimeError:
                    pass
                if bad:
                    rep.violation('split:' + ','.join(bad), 'parse_args(%r): %s differ (ours=%r forwarded=%r mode=%s)'
                                  % (words, bad, a.wayland_debug_args, a.command_args, a.mode), rp)
                elif want['mode'] == 'gdb':
                    # the instance started inside gdb must receive exactly our words, gdb exactly the forwarded ones
                    nh += 1
                    try:
                        call, inner = gdb_handover(a)
                    except (RuntimeError, KeyError) as e:
                        # the tool refuses to start gdb (or never gets as far as starting it) for a legitimate command line
                        rep.violation('gdb:not-started', 'gdb would not be started for %r: %r' % (words, e), rp)
                        continue
                    if call[3:] != after:
                        rep.violation('gdb:forwarded', 'gdb would be started with %r after the -ex command, forwarded words are %r' % (call[3:], after), rp)
                    if inner != ['main.py'] + before:
                        key = 'gdb:inner-argv'
                        if any('\\' in w for w in before):
                            key += ':backslash'
                        rep.violation(key, 'the instance inside gdb would see sys.argv = %r instead of %r' % (inner, ['main.py'] + before), rp)
        if len(rep.samples) < 4 and want['o'] == 'ok' and len(argv) >= 3:
            rep.sample({'classes': argv, 'words': words, 'outcome': want})
    real_gdb_handover(ctx, rep)
    real_run_handover(ctx, rep)
    rep.traces = rep.evaluations
    rep.extra['gdb_handovers_checked'] = nh
    rep.rule = ('P1: TLC checks ForwardedVerbatim / FirstWins / ExactlyOneMode on CmdLine!Outcome for every argv of <= 4/5 tokens over 14 token '
                'classes; P4: TLC prints Outcome for each; each argv is concretised (option spellings, values with spaces, quotes, '
                'backslashes, option look-alikes after the marker) and the real parse_args must split, select the mode, parse -f/-b and '
                'report errors accordingly; for gdb mode the command run_gdb builds is executed in a scratch interpreter and must recreate '
                'exactly our words. A case is one concrete argument vector.')
    rep.assumptions = ['values beginning with - and values attached to their option (-fV, -f=V) are outside the quantifier',
                       'gdb passes the text after `python` to its interpreter unchanged (exercised for real in the thorough tier of C13/C09 harness)']
    return rep


def replay(ctx, data):
    if data.get('kind') == 'realgdb':
        import subprocess
        p = subprocess.run([PY_BIN, os.path.join(e1.REPO, 'main.py')] + data['argv'], cwd=e1.REPO, stdin=subprocess.DEVNULL,
                           stdout=subprocess.PIPE, stderr=subprocess.STDOUT, timeout=120)
        print(p.stdout.decode('utf-8', 'replace')[-1500:])
        return True
    got = call_parse_args(data['words'])
    print('parse_args ->', got['exc'], got.get('msg', got.get('code')))
    if got['args'] is not None:
        a = got['args']
        print('ours', a.wayland_debug_args, 'forwarded', a.command_args, 'mode', a.mode)
        if str(a.mode) in ('Mode.GDB_RUNNER', 'gdb-runner') or 'GDB_RUNNER' in repr(a.mode):
            call, inner = gdb_handover(a)
            print('inside gdb sys.argv =', inner)
    return True
