"""C17 - colour is presentation only."""
import copy, json, os, re, shutil, subprocess, tempfile
import framework, tlc, e1, gen, lexer, printer, sessionprop, tracecheck
from props import sessbase, c13

LEVEL = 'exploration'
ESC = '\x1b'
SGR = re.compile(r'\x1b\[[\d;]*m')


def session_for(ctx, k):
    if k % 10 == 9:
        # many incarnations of one id: every generation letter (and ids ending in 0) appears in coloured labels
        import random
        from props import c02
        r2 = random.Random(ctx.seed * 77 + k)
        s = c02.churn_session(r2, r2.choice([30, 45]), server_side=k % 20 == 9, srv=k % 30 == 9)
        for e in s['events']:
            if e['in']['e'] == 'msg':
                m = e['in']['m']
                # ids 5 -> 50, 4 -> 400: labels such as @50m
                def ren(i):
                    return {5: 50, 4: 400}.get(i, i)
                m['tid'] = ren(m['tid'])
                for a in m['args']:
                    if a['k'] in ('obj', 'new'):
                        a['id'] = ren(a['id'])
                    if a['k'] == 'int' and m['name'] == 'delete_id':
                        a['v'] = ren(a['v'])
        s['events'].append({'in': {'e': 'cmd', 'c': 'other', 'text': 'list ~ 40'}})
        return s
    g = gen.SessionGen(ctx.seed * 15485867 + k, nconn=(1, 3), nmsg=(12, 35), junk=0.15, cmds=0.35, core=None if k % 2 else True, unresolved=0.08,
                       matcher_depth=k % 3, with_init_filter=0.3, show=True)
    s = g.session()
    # every kind of command output at least sometimes
    extra = ['help', 'help list', 'help matcher', 'matcher wl_surface.[commit, frame](x=1 ! y=2)', 'connection', 'filter', 'breakpoint',
             'bogus', '', 'list', 'list ~ 3', 'matcher (', 'connection Q', 'l', 'list ~ x']
    for t in ctx.rnd.sample(extra, 5):
        s['events'].append({'in': {'e': 'cmd', 'c': 'other', 'text': t}})
    return s


def esc_count(x):
    """number of ESC characters in the strings of a JSON-like value"""
    if isinstance(x, str):
        return x.count(ESC)
    if isinstance(x, dict):
        return sum(esc_count(v) for v in x.values())
    if isinstance(x, (list, tuple)):
        return sum(esc_count(v) for v in x)
    return 0


def coloured_tokens(raw_chunks, r, n):
    """pieces of the coloured output a user might paste back: whole coloured spans, labels, matcher renderings"""
    toks = []
    for chan, text in raw_chunks:
        for m in re.finditer(r'(?:\x1b\[[\d;]*m)+[^\x1b\n]{1,40}(?:\x1b\[[\d;]*m)+', text):
            toks.append(m.group(0))
        m = re.search(r'(?:match|matcher:|filter:) (.*)$', text)
        if m and ESC in m.group(1):
            toks.append(m.group(1))
        for m in re.finditer(r'(\x1b\[[\d;]*m@\d+[a-z]+\x1b\[0m)', text):
            toks.append(m.group(1))
    toks = [t for t in toks if SGR.sub('', t).strip()]
    r.shuffle(toks)
    return toks[:n]


def paste_back(ctx, rep, base, tokens):
    """`cmd <coloured text>` must be understood exactly as `cmd <the same text without the escape sequences>`"""
    r = ctx.rnd
    CMDS = ['list ', 'filter ', 'breakpoint ', 'matcher ', 'connection ', 'help ', '']
    for tok in tokens:
        cmd = r.choice(CMDS)
        outs = []
        for text in (cmd + tok, cmd + SGR.sub('', tok)):
            tr = copy.deepcopy(base)
            tr['events'].append({'in': {'e': 'cmd', 'c': 'other', 'text': text}})
            # the command word itself coloured, sometimes
            if r.random() < 0.3 and cmd:
                tr['events'][-1]['in']['text'] = '\x1b[93m' + cmd.strip() + '\x1b[0m ' + text[len(cmd):]
            e1.run(tr, color=False, keep_raw=True, keep_session=True)
            S = tr.pop('_S')
            last = tr['events'][-1]['obs']
            outs.append((json.dumps(last.get('_raw')), last.get('raised', False), json.dumps(S.fsel()), json.dumps(S.bsel()), S.sel()))
        # the same text given as the value of -f / -b when the tool is started
        if cmd in ('filter ', 'breakpoint ') and not outs[1][1]:
            opt = 'ftext' if cmd == 'filter ' else 'btext'
            sel = []
            for text in (tok, SGR.sub('', tok)):
                tr = copy.deepcopy(base)
                tr['init'] = dict(tr['init'], **{opt: text})
                try:
                    e1.run(tr, color=False, keep_session=True)
                    S = tr.pop('_S')
                    sel.append((json.dumps(S.fsel()), json.dumps(S.bsel()), tr.get('escaped', '')[-200:]))
                except RuntimeError as e:
                    sel.append(('rejected', str(e)[-200:]))
            if sel[0] != sel[1] and sel[1][0] != 'rejected':
                rep.violation('option-paste-differs:' + opt, 'given as the value of %s with colour codes, %r is not understood as without them: %r vs %r'
                              % ('-f' if opt == 'ftext' else '-b', tok, sel[0][-1][:200] if sel[0][0] == 'rejected' else 'accepted', 'accepted'),
                              {'kind': 'paste', 'cmd': cmd, 'token': tok})
        rep.case('paste:' + cmd + tok)
        if outs[0] != outs[1]:
            rep.violation('paste-back-differs:' + (cmd.strip() or 'bare'), 'typed with colour codes, %r is not understood as without them: %s vs %s'
                          % (cmd + tok, outs[0][0][:200], outs[1][0][:200]), {'kind': 'paste', 'cmd': cmd, 'token': tok})


def run(ctx):
    rep = framework.Report(ctx, LEVEL)
    r = ctx.rnd
    coloured = []
    all_tokens = []
    npaste = 0
    for k in range(ctx.pick(300, 2500)):
        s = session_for(ctx, k)
        render = {'dialect': r.choice(['old', 'new'])}
        off, on = copy.deepcopy(s), copy.deepcopy(s)
        e1.run(off, render=render, color=False, keep_raw=True)
        e1.run(on, render=render, color=True, keep_raw=True)
        rep.case(json.dumps([e['in'] for e in s['events']]))
        input_has_esc = ESC in json.dumps([e['in'] for e in s['events']], ensure_ascii=False)
        raws = []
        for i, (a, b) in enumerate(zip(off['events'], on['events'])):
            ra, rb = a['obs'].get('_raw', []), b['obs'].get('_raw', [])
            raws += rb
            stripped = [(c, SGR.sub('', t)) for c, t in rb]
            # escape sequences that are part of the input (passed-through chatter) are removed from the coloured output along with
            # the tool's own: the uncoloured side is then compared without them as well
            here_esc = esc_count(a['in'])
            ra_cmp = [(c, SGR.sub('', t) if here_esc else t) for c, t in ra]
            if stripped != ra_cmp:
                first = next((j for j, (x, y) in enumerate(zip(stripped, ra_cmp)) if x != tuple(y)), min(len(stripped), len(ra)))
                rep.violation('colour-changes-text:' + a['in']['e'] + ('.' + a['in'].get('c', '') if a['in']['e'] == 'cmd' else ''),
                              'with colour, minus the escape sequences, the output of event %d (%s) is not the uncoloured output: %r vs %r'
                              % (i + 1, json.dumps(a['in'])[:150], stripped[first:first + 1], ra[first:first + 1]),
                              {'kind': 'session', 'trace': sessionprop.inputs_only(s), 'render': render})
                break
            if sum(t.count(ESC) for c, t in ra) > here_esc:
                rep.violation('escape-without-colour', 'with colour disabled the tool emits an escape sequence at event %d: %r' % (i + 1, ra),
                              {'kind': 'session', 'trace': sessionprop.inputs_only(s), 'render': render})
                break
        coloured.append((on, render, 'coloured'))
        if k % 6 == 0:
            base = {'init': s['init'], 'events': [e for e in s['events'] if e['in']['e'] in ('msg', 'junk')][:15] + [{'in': {'e': 'eof'}}]}
            toks = coloured_tokens(raws, r, ctx.pick(4, 8))
            all_tokens.extend(t for t in toks if ';' in t)
            npaste += len(toks)
            paste_back(ctx, rep, base, toks)
        if len(rep.samples) < 2 and raws:
            rep.sample({'coloured_chunk': raws[min(3, len(raws) - 1)][1][:160]})
    # the coloured runs conform to the same specification as the uncoloured ones (their traces are validated by TLC)
    traces = [t for t, _, _ in coloured]
    v = tracecheck.validate_parallel(traces, name='c17')
    rep.add_tlc(v, 'TraceSession on %d coloured runs (%d steps)' % (v.ntraces, v.nsteps))
    rep.traces += v.ntraces
    for t, l, asp in v.fails:
        asp = [a for a in asp if not a.startswith('PROP.')]
        if asp:
            tr = traces[t - 1]
            rep.violation('coloured-run-deviates:' + ','.join(sorted(asp)), 'with colour the session deviates from Session!Step at step %d in %s' % (l, asp),
                          {'kind': 'session', 'trace': sessionprop.inputs_only(tr), 'render': coloured[t - 1][1], 'color': True})
    rep.extra['paste_back_tokens'] = npaste
    # real processes: --color vs --no-color
    tmp = tempfile.mkdtemp(prefix='c17-', dir=os.path.join(tlc.OUT, 'tmp'))
    try:
        # coloured text typed at the real prompt (file mode): understood as the uncoloured text
        plog = os.path.join(tmp, 'paste.log')
        open(plog, 'w').write('[1000.000]  -> wl_display@1.get_registry(new id wl_registry@2)\n[1000.100] wl_registry@2.global(1, "wl_compositor", 4)\n'
                              '[1000.200]  -> wl_registry@2.bind(1, "wl_compositor", 4, new id [unknown]@3)\n[1000.300]  -> wl_compositor@3.create_surface(new id wl_surface@4)\n')
        typed = ['filter wl_registry.bind(\x1b[1;92m*\x1b[0m)', 'list \x1b[1;96mwl_registry\x1b[0m', 'matcher \x1b[1;94m.bind\x1b[0m', 'list \x1b[36m@2a\x1b[0m',
                 'breakpoint \x1b[1;96mwl_compositor\x1b[0m\x1b[1;94m.create_surface\x1b[0m', '\x1b[93mlist\x1b[0m wl_surface ~ 1']
        typed += ['filter ' + t for t in all_tokens[:ctx.pick(4, 12)]]
        for text in typed:
            res = []
            for variant in (text, SGR.sub('', text)):
                rc, out, err = c13.run_tool(['-C', '-l', plog], (variant + '\nlist ~ 3\nquit\n').encode('utf-8'))
                res.append((rc, out, [l for l in err.split('\n') if l.startswith(('Error: ', 'Warning: '))]))
            rep.case('process-paste:' + text)
            if res[0] != res[1]:
                rep.violation('process-paste-back-differs', 'typed at the prompt of the real process with colour codes, %r is not understood as without them: %r vs %r'
                              % (text, (res[0][1] + ' '.join(res[0][2]))[-300:], (res[1][1] + ' '.join(res[1][2]))[-300:]), {'kind': 'process-paste', 'text': text})
        for k in range(ctx.pick(3, 12)):
            s = gen.SessionGen(ctx.seed * 31337 + k, nconn=(1, 2), nmsg=(10, 30), junk=0.2, core=None).session()
            text = '\n'.join(c13.stream_of(s, {'dialect': 'new'})) + '\n'
            f = os.path.join(tmp, 'l%d.log' % k)
            open(f, 'w').write(text)
            outs = {}
            for flag in ('--color', '--no-color'):
                rc, out, err = c13.run_tool([flag, '-l', f], b'help\nlist ~ 3\nconnection\nquit\n')
                outs[flag] = (rc, out, err)
            rep.case('process:%d' % k)
            a, b = outs['--color'], outs['--no-color']
            if SGR.sub('', a[1]) != (SGR.sub('', b[1]) if ESC in text else b[1]) or a[0] != b[0]:
                rep.violation('process-colour-changes-text', 'main.py --color, minus escapes, differs from --no-color', {'kind': 'process', 'log': text})
            if b[1].count(ESC) > text.count(ESC):
                rep.violation('process-escape-without-colour', 'main.py --no-color emits an escape sequence', {'kind': 'process', 'log': text})
            if ESC not in a[1]:
                rep.violation('process-no-colour-at-all', 'main.py --color emits no escape sequence at all', {'kind': 'process', 'log': text})
    finally:
        shutil.rmtree(tmp, ignore_errors=True)
    rep.rule = ('random sessions over all shipped interfaces (every argument kind, enum labels, destroyed annotations, unresolved objects, '
                'passthrough lines) with every command (list, filter, breakpoint, matcher, connection, help, errors) are run twice in-process, '
                'with and without colour: every written chunk with its escape sequences removed must equal the uncoloured chunk, character '
                'for character, and the uncoloured run must emit no ESC of its own; the coloured runs are validated by TLC against Session '
                'like the uncoloured ones; coloured spans, labels and matcher renderings taken from the coloured output are pasted back as '
                'arguments of list / filter / breakpoint / matcher / connection / help and as command words and must have the same effect '
                '(output, filter, breakpoint, selection) as the text without escapes; main.py --color / --no-color are compared as processes. '
                'A case is one session, pasted token or process pair.')
    rep.assumptions = ['the relation itself (strip(on) == off) is checked by the harness; TLC supplies the reference behaviour both runs conform to']
    return rep


def replay(ctx, data):
    if data['kind'] == 'paste':
        print(repr(data['cmd'] + data['token']))
        return True
    if data['kind'] == 'process':
        print(data['log'][:500])
        return True
    off, on = copy.deepcopy(data['trace']), copy.deepcopy(data['trace'])
    e1.run(off, render=data.get('render'), color=False, keep_raw=True)
    e1.run(on, render=data.get('render'), color=True, keep_raw=True)
    bad = False
    for i, (a, b) in enumerate(zip(off['events'], on['events'])):
        ra, rb = a['obs'].get('_raw', []), b['obs'].get('_raw', [])
        if [(c, SGR.sub('', t)) for c, t in rb] != [(c, t) for c, t in ra]:
            print('event', i + 1, json.dumps(a['in'])[:200])
            print('  coloured :', rb)
            print('  plain    :', ra)
            bad = True
    return bad
