"""C01 - every libwayland debug line decodes to exactly the message it denotes."""
import itertools, json, os, random, sys
import framework, tlc, printer, e1, gen

LEVEL = 'model_checking'
CH = {'q': '"', 'c': ',', 's': ' ', 'b': '\\', 'o': 'x'}
INV = {v: k for k, v in CH.items()}


# ---------------------------------------------------------------------------
# concretisation of argument classes: boundary values + seeded samples
def values(cls, r, k):
    I = lambda v: {'k': 'int', 'v': v}
    U = lambda v: {'k': 'uint', 'v': v}
    F = lambda raw: {'k': 'float', 'raw': raw}
    S = lambda s: {'k': 'str', 's': s}
    if cls == 'int0': return [I(0)]
    if cls == 'intpos': return [I(1), I(7), I(2 ** 31 - 2)] + [I(r.randint(1, 2 ** 31 - 1)) for _ in range(k)]
    if cls == 'intneg': return [I(-1), I(-2 ** 31 + 1)] + [I(-r.randint(1, 2 ** 31 - 1)) for _ in range(k)]
    if cls == 'intmin': return [I(-2 ** 31)]
    if cls == 'intmax': return [I(2 ** 31 - 1)]
    if cls == 'uintbig': return [U(2 ** 31), U(2 ** 32 - 1), U(0xff000000)] + [U(r.randint(2 ** 31, 2 ** 32 - 1)) for _ in range(k)]
    if cls == 'fix0': return [F(0)]
    if cls == 'fixpos': return [F(384), F(257), F(255), F(256 * 1234 + 77)] + [F(r.randint(1, 2 ** 31 - 1)) for _ in range(k)]
    if cls == 'fixneg': return [F(-384), F(-1), F(-255), F(-257)] + [F(-r.randint(1, 2 ** 31 - 1)) for _ in range(k)]
    if cls == 'fixint': return [F(256), F(-256), F(256 * 100)] + [F(256 * r.randint(-8388608, 8388607)) for _ in range(k)]
    if cls == 'fixtiny': return [F(1), F(2), F(-1)] + [F(r.randint(-255, 255)) for _ in range(k)]
    if cls == 'fixmax': return [F(2 ** 31 - 1)]
    if cls == 'fixmin': return [F(-2 ** 31)]
    if cls == 'strempty': return [S('')]
    if cls == 'strplain': return [S('hello'), S('a'), S('wl_compositor'), S('long ' * 1000 + 'title'), S('x' * 4073)] + [S(''.join(r.choice('abcxyz_-./:;') for _ in range(r.randint(1, 12)))) for _ in range(k)]
    if cls == 'strcomma': return [S('a, b'), S(', '), S('x, '), S(', y'), S('1, 2, 3'), S(',')]
    if cls == 'strbracket': return [S('[x]'), S('array[4]'), S('[')]
    if cls == 'strparen': return [S('(x)'), S(')'), S('a)'), S('f(1, 2)'), S('), ')]
    if cls == 'strarrow': return [S(' -> wl_a@1.b()'), S('wl_a@1.b(1)'), S('[123.456] wl_a@1.b()')]
    if cls == 'strnum': return [S('12'), S('-5'), S('0')]
    if cls == 'strfloat': return [S('1.5'), S('1,5'), S('1e9')]
    if cls == 'strobj': return [S('wl_surface@3'), S('wl_surface#3')]
    if cls == 'strnil': return [S('nil')]
    if cls == 'strfd': return [S('fd 3')]
    if cls == 'strarray': return [S('array'), S('array[16]')]
    if cls == 'strnewid': return [S('new id wl_x@4'), S('new id [unknown]#4')]
    if cls == 'strunicode': return [S('héllo ☃'), S('日本')]
    if cls == 'strspaces': return [S(' '), S('  a  '), S('a b c')]
    if cls == 'obj': return [{'k': 'obj', 'type': 'wl_surface', 'id': 3}, {'k': 'obj', 'type': 'x', 'id': 1}] + \
        [{'k': 'obj', 'type': r.choice(['xdg_toplevel', 'zwp_linux_dmabuf_v1', 'a1']), 'id': r.randint(1, 2 ** 31 - 1)} for _ in range(k)]
    if cls == 'objbig': return [{'k': 'obj', 'type': 'wl_data_offer', 'id': -16777216}, {'k': 'obj', 'type': 'wl_data_offer', 'id': -1}]
    if cls == 'nil': return [{'k': 'nil', 'type': ''}]
    if cls == 'newtyped': return [{'k': 'new', 'type': 'wl_callback', 'id': 3}, {'k': 'new', 'type': 'wl_data_offer', 'id': -16777216}] + \
        [{'k': 'new', 'type': 'wl_region', 'id': r.randint(2, 2 ** 31 - 1)} for _ in range(k)]
    if cls == 'newunknown': return [{'k': 'new', 'type': '', 'id': 5}]
    if cls == 'fd': return [{'k': 'fd', 'v': 0}, {'k': 'fd', 'v': 3}, {'k': 'fd', 'v': 1023}]
    if cls == 'array0': return [{'k': 'array', 'n': 0}]
    if cls == 'arrayn': return [{'k': 'array', 'n': 4}, {'k': 'array', 'n': 16}, {'k': 'array', 'n': 65536}, {'k': 'array', 'n': 3}, {'k': 'array', 'n': 4095}]
    raise ValueError(cls)


QUEUE = {'none': [None], 'empty': [''], 'word': ['x', 'Default'], 'words': ['Default Queue', 'Display Queue', 'mesa egl surface queue']}
TAG = {'none': [''], 'num': ['1', '27']}
TARGETS = [('wl_display', 1), ('wl_surface', 3), ('xdg_toplevel', 2 ** 31 - 1), ('wl_data_offer', -16777216), ('zwp_x_v1', -1), ('a', 12)]
NAMES = ['commit', 'delete_id', 'a', 'set_title', 'configure_bounds2']
TIMES = [0, 1, 999, 1000, 492063955, 2 ** 32 * 1000 - 1, 4294967295, 1234567890]


def fixed_value(a, dialect, mark):
    """the value the printed text denotes"""
    text = printer.arg_text(a, dialect, mark)
    return float(text.replace(',', '.'))


def compare(ev, dialect, mark, m, cid, conn_expected):
    """field by field; returns list of differing aspects"""
    wl = e1.mods().wl
    A = wl.Arg
    bad = []
    mm = ev['m']
    if cid != conn_expected: bad.append('conn')
    if bool(m.sent) != mm['sent']: bad.append('dir')
    if m.obj.type != mm['ttype']: bad.append('target.type')
    if m.obj.id != (mm['tid'] & 0xffffffff): bad.append('target.id')
    if m.name != mm['name']: bad.append('name')
    if len(m.args) != len(mm['args']):
        bad.append('nargs')
        return bad
    for a, x in zip(mm['args'], m.args):
        k = a['k']
        if k in ('int', 'uint'):
            want = a['v'] if k == 'int' else a['v'] & 0xffffffff
            if type(x) is not A.Int: bad.append('kind:int')
            elif x.value != want: bad.append('value:int')
        elif k == 'float':
            if type(x) is not A.Float: bad.append('kind:fixed')
            elif x.value != fixed_value(a, dialect, mark): bad.append('value:fixed')
        elif k == 'str':
            if type(x) is not A.String: bad.append('kind:string')
            elif x.value != a['s']: bad.append('value:string')
        elif k in ('obj', 'new'):
            if type(x) is not A.Object: bad.append('kind:' + ('object' if k == 'obj' else 'new_id'))
            else:
                if bool(x.is_new) != (k == 'new'): bad.append('kind:new_id-flag')
                if x.obj.id != (a['id'] & 0xffffffff): bad.append('value:object-id')
                if (x.obj.type or '') != a['type']: bad.append('value:object-type')
        elif k == 'nil':
            if type(x) is not A.Null: bad.append('kind:nil')
        elif k == 'fd':
            if type(x) is not A.Fd: bad.append('kind:fd')
            elif x.value != a['v']: bad.append('value:fd')
        elif k == 'array':
            if type(x) is not A.Array: bad.append('kind:array')
    return bad


def fresh_aspects(msg):
    """a message as the decoder hands it over: nothing but what the line says (names, nil interfaces and enum labels come
    later, from the protocol descriptions) - returns what is there already"""
    A = e1.mods().wl.Arg
    bad = []
    for x in msg.args:
        if getattr(x, 'name', None) is not None: bad.append('stale:name')
        if type(x) is A.Null and getattr(x, 'type', None) is not None: bad.append('stale:nil-type')
        if type(x) is A.Int and hasattr(x, 'labels'): bad.append('stale:labels')
    return bad


def stateful_decode(ctx, rep):
    """Decoding is a function of the line alone: whole sessions go through the tool's own loop (parse.into_sink), every message is
    intercepted between the decoder and the connection it is handed to, compared with the line it came from, and then
    passed on - so that whatever the tool does to a message afterwards (resolution against the object table and the
    protocol) has happened to all earlier messages when the next line is decoded."""
    import io
    m = e1.mods()
    n = 0
    for k in range(ctx.pick(40, 400)):
        g = gen.SessionGen(ctx.seed * 15485863 + k, nconn=(1, 2), nmsg=(25, 60), junk=0.05, core=(k % 2 == 0))
        s = g.session()
        render = {'dialect': 'new' if k % 2 else 'old', 'mark': ',' if k % 5 == 0 else '.'}
        evs = [e['in'] for e in s['events'] if e['in']['e'] in ('msg', 'junk')]
        # every third session mixes the two dialects line by line (programs linked against different libwayland versions
        # writing to one stream): what a line denotes does not depend on its neighbours' dialect
        rr = random.Random(k)
        renders = [dict(render, dialect=rr.choice(['old', 'new'])) if k % 3 == 2 else render for _ in evs]
        lines = [printer.line(ev, **rd) if ev['e'] == 'msg' else ev['text'] for ev, rd in zip(evs, renders)]
        want = [ev for ev in evs if ev['e'] == 'msg']
        want_rd = [rd for ev, rd in zip(evs, renders) if ev['e'] == 'msg']
        S = e1.Session()
        got = []

        class Sink:
            def open_connection(self, time, connection_id, is_server):
                return S.cm.open_connection(time, connection_id, is_server)
            def close_connection(self, time, connection_id):
                return S.cm.close_connection(time, connection_id)
            def message(self, connection_id, message):
                i = len(got)
                bad = fresh_aspects(message)
                if i < len(want):
                    bad += compare(want[i], want_rd[i]['dialect'], want_rd[i]['mark'], message, connection_id, want[i]['tag'] or 'PARSED')
                got.append(bad)
                return S.cm.message(connection_id, message)
        try:
            m.parse.into_sink(io.StringIO('\n'.join(lines) + '\n'), S.output, Sink())
        except Exception as e:
            rep.violation('stateful:exception', 'the session loop raised %r' % (e,), {'kind': 'session-lines', 'lines': lines})
            continue
        rep.case('session:' + json.dumps(lines))
        n += len(got)
        if len(got) != len(want):
            rep.violation('stateful:count', '%d message lines, %d messages decoded in the session loop' % (len(want), len(got)),
                          {'kind': 'session-lines', 'lines': lines})
        for i, bad in enumerate(got):
            if bad:
                rep.violation('stateful:' + ','.join(sorted(set(bad))),
                              'message %d of a session (%r) leaves the decoder as %s, although the same line decodes correctly on its own'
                              % (i + 1, printer.line(want[i], **want_rd[i]) if i < len(want) else '?', sorted(set(bad))),
                              {'kind': 'session-lines', 'lines': lines})
                break
    rep.extra['messages_decoded_in_sessions'] = n
    return n


def arg_key(a, dialect):
    k = a['k']
    if k == 'str':
        return 'str-empty' if a['s'] == '' else 'str'
    if k == 'array':
        return 'array-sized' if dialect == 'new' else 'array'
    return {'float': 'fixed'}.get(k, k)


def junk_lines(r, valid):
    """lines that hold no message: class -> texts"""
    out = {
        'empty': ['', '   ', '\t'],
        'chatter': ['hello world', 'using wayland', '(EE) failed to frob', 'wl_surface.commit', 'a -> b'],
        'timestamp-only': ['[123.456]', '[ 123.456] ', '[1234567.890]  -> '],
        'discarded': ['[123.456] discarded wl_surface@3.enter(wl_output@5)', '[123.456] discarded  -> wl_a#1.b()'],
        'trailing-text': ['[123.456] wl_surface@3.commit() trailing', '[123.456] wl_surface@3.commit();'],
        'no-timestamp': ['wl_surface@3.commit()', ' -> wl_surface@3.commit()', '[] wl_surface@3.commit()', '[abc] wl_surface@3.commit()'],
        'bad-id': ['[123.456] wl_surface@x.commit()', '[123.456] wl_surface@.commit()', '[123.456] wl_surface.commit()'],
        'no-dot': ['[123.456] wl_surface@3commit()', '[123.456] wl_surface@3 commit()'],
        'no-paren': ['[123.456] wl_surface@3.commit', '[123.456] wl_surface@3.commit)', '[123.456] wl_surface@3.commit('],
        # a bracketed prefix that is not a libwayland time stamp (`[%7u.%03u]`: digits, a decimal mark, digits), followed by
        # text shaped like a message: a pid / thread / level prefix of the program's own chatter
        'odd-timestamp': ['[4242] worker@3.run(started)', '[7]  -> a#1.b()', '[-1.5] x@1.y()', '[2e3] x@1.y()', '[1.5e3] x@1.y(1)',
                          '[+1.5] x@1.y()', '[1.] x@1.y()', '[.5] x@1.y()', '[1.2.3] x@1.y()', '[0x1f.0] x@1.y()', '[12 .5] x@1.y()',
                          '[1234.567]x@1.y()', '(1234.567) x@1.y()', '[1234.567] {q x@1.y()', '[1234.567] <1 x@1.y()'],
        'bracketed-chatter': ['[debug] frame 12', '[123.456] not a message', '[12.5] wl_x@1 .y()', '[1.0] hello wl_a@1.b() x'],
    }
    pre = []
    for line in valid:
        end = line.rindex(')')
        for cut in sorted(set([0, 1, 5, end // 2, end - 1, end] + [r.randint(0, end) for _ in range(4)])):
            p = line[:cut]
            # a proper prefix that ends before the closing parenthesis - unless what remains is a complete shorter message
            if ')' in p[p.find('('):] and p.endswith(')'):
                continue
            pre.append(p)
    out['prefix'] = pre
    return out


def run(ctx):
    rep = framework.Report(ctx, LEVEL)
    m = e1.mods()
    parse, wl = m.parse, m.wl
    r = ctx.rnd
    # ---- 1. the splitter: TLC round trip on the transcription, exhaustive differential binding to the real function
    res = tlc.run_tlc('MC_ArgSplit.tla', cfg=ctx.pick('MC_ArgSplit_quick.cfg', 'MC_ArgSplit.cfg'), workers=16)
    if res.violated:
        raise tlc.MachineryError('ArgSplit!RoundTrip fails on the transcription itself')
    rep.add_tlc(res, 'P1 ArgSplit!RoundTrip: Split(Join(args)) = args over all bounded argument lists')
    N = ctx.pick(7, 8)
    tab = []
    for n in range(N + 1):
        for t in itertools.product('qcsbo', repeat=n):
            txt = ''.join(CH[c] for c in t)
            try:
                parts = parse.argument_list_strs(txt)
                tab.append({'s': list(t), 'parts': [[INV[c] for c in p] for p in parts]})
            except Exception as e:
                rep.violation('splitter-exception', 'argument_list_strs(%r) raised %r' % (txt, e), {'kind': 'split', 'text': txt})
                tab.append({'s': list(t), 'parts': [['?']]})
    diffs = []
    CH_N = 120000        # one TLC run per chunk: the JSON bridge does not like tables of millions of entries
    for c0 in range(0, len(tab), CH_N):
        path = os.path.join(tlc.OUT, 'tmp', 'argsplit-%d-%d.json' % (os.getpid(), c0))
        json.dump(tab[c0:c0 + CH_N], open(path, 'w'))
        try:
            res = tlc.run_tlc('TraceArgSplit.tla', cfg='TraceArgSplit.cfg', env={'TRACE_FILE': path}, workers=16)
        finally:
            os.unlink(path)
        rep.add_tlc(res, 'P4 ArgSplit!Split = argument_list_strs on class strings %d..%d of all %d of length <= %d' % (c0, min(len(tab), c0 + CH_N), len(tab), N))
        diffs += tlc.printed_tuples(res.stdout, 'DIFF')
    rep.extra['splitter_strings_compared'] = len(tab)
    for d in diffs[:5]:
        txt = ''.join(CH[c] for c in d[1])
        rep.violation('splitter-differs', 'argument_list_strs(%r) = %r, ArgSplit!Split says %r' % (txt, d[2], d[3]), {'kind': 'split', 'text': txt})
    # ---- 2. abstract lines enumerated by TLC, rendered by the printer model, decoded by the tool
    cases_file = os.path.join(tlc.OUT, 'tmp', 'wlcases-%d.json' % os.getpid())
    res = tlc.run_tlc('WlLine.tla', cfg='WlLine.cfg', workers=1, env={'CASES_FILE': cases_file})
    d = json.load(open(cases_file))
    os.unlink(cases_file)
    rep.states += len(d['cases'])
    rep.transitions += len(d['cases'])
    rep.tlc_runs.append({'what': 'WlLine: enumeration of abstract line shapes x argument-class sequences of length <= 2',
                         'states': len(d['cases']), 'transitions': len(d['cases']), 'wall_s': round(res.wall, 2)})
    k = ctx.pick(1, 6)
    cases = d['cases']
    if ctx.quick:
        # all single-argument cases, a seeded third of the two-argument ones
        cases = [c for c in cases if len(c['args']) <= 1] + r.sample([c for c in cases if len(c['args']) == 2], len(cases) // 4)
    # longer lists (up to 20 arguments, every class in every position) by seeded sampling
    classes = d['classes']
    shapes = [c['shape'] for c in d['cases'] if not c['args']]
    for _ in range(ctx.pick(1500, 30000)):
        n = r.choice([3, 3, 4, 5, 8, 13, 20])
        cases.append({'shape': r.choice(shapes), 'args': [r.choice(classes) for _ in range(n)]})
    valid_lines = []
    nlines = 0
    for c in cases:
        sh = c['shape']
        pools = [values(cls, r, k) for cls in c['args']]
        width = max([len(p) for p in pools] + [1])
        reps = width if len(pools) <= 1 else min(width, ctx.pick(2, 4))
        for j in range(reps):
            args = [p[(j + i) % len(p)] for i, p in enumerate(pools)]
            ty, tid = TARGETS[(j + nlines) % len(TARGETS)]
            ev = {'tag': r.choice(TAG[sh['tag']]), 't': TIMES[(j + nlines) % len(TIMES)],
                  'm': {'ttype': ty, 'tid': tid, 'name': NAMES[(j + nlines) % len(NAMES)], 'sent': sh['sent'], 'args': args}}
            queue = r.choice(QUEUE[sh['queue']])
            line = printer.line(ev, dialect=sh['dialect'], mark=sh['mark'], queue=queue)
            nlines += 1
            rep.case(line)
            if nlines % 5000 == 1:
                rep.sample({'line': line, 'abstract': ev})
            if len(valid_lines) < 400 and nlines % 50 == 0:
                valid_lines.append(line)
            wl.Message.base_time = 0.0
            try:
                cid, msg = parse.message(line)
            except Exception as e:
                rep.violation('not-decoded:' + '+'.join(sorted(set(arg_key(a, sh['dialect']) for a in args))) or 'noargs',
                              'a message line is not decoded: %r (%r)' % (line, e), {'kind': 'line', 'line': line, 'abstract': ev})
                continue
            bad = compare(ev, sh['dialect'], sh['mark'], msg, cid, ev['tag'] or 'PARSED')
            want_t = ev['t'] / 1e6
            if abs(msg.timestamp - want_t) > 1e-6 * max(1.0, want_t):
                bad.append('time')
            if bad:
                # key: the classes of the arguments that were decoded wrongly (so that a different failure is a different key)
                culprits = set()
                for a, x in zip(args, msg.args) if len(args) == len(msg.args) else []:
                    one = compare({'m': dict(ev['m'], args=[a])}, sh['dialect'], sh['mark'],
                                  type('M', (), {'sent': msg.sent, 'obj': msg.obj, 'name': msg.name, 'args': (x,)})(), cid, cid)
                    if any(b.startswith(('kind', 'value')) for b in one):
                        culprits.add(arg_key(a, sh['dialect']))
                key = 'decode:' + ('+'.join(sorted(culprits)) if culprits else ','.join(sorted(set(bad))))
                rep.violation(key, 'line %r decodes wrongly: %s' % (line, sorted(set(bad))), {'kind': 'line', 'line': line, 'abstract': ev})
    rep.extra['lines_decoded'] = nlines
    # ---- 2b. the same inside whole sessions: decoding must not depend on what was decoded before
    nlines += stateful_decode(ctx, rep)
    # ---- 3. lines that hold no message
    nj = 0
    for cls, texts in junk_lines(r, valid_lines).items():
        for t in texts:
            nj += 1
            rep.case('junk:' + t)
            wl.Message.base_time = 0.0
            try:
                cid, msg = parse.message(t.strip())
                rep.violation('junk-reported:' + cls, 'a line without a message is reported as one: %r -> %s' % (t, msg.name),
                              {'kind': 'junk', 'line': t})
            except RuntimeError:
                pass
            except Exception as e:
                rep.violation('junk-exception:' + cls, 'a line without a message raises %r: %r' % (e, t), {'kind': 'junk', 'line': t})
    rep.extra['non_message_lines'] = nj
    rep.traces = nlines + nj
    rep.rule = ('ArgSplit: TLC round trip over all argument lists of the bounded universe + exhaustive differential table binding the '
                'transcription to the real splitter; WlLine: TLC enumerates dialect x decimal mark x queue tag x connection tag x direction '
                'x all argument-class sequences of length <= 2 (32 classes), longer lists (<= 20) are sampled; every class is rendered with '
                'its boundary values and seeded samples and decoded by the real parse.message; a case is one distinct line.')
    rep.assumptions = ['printer model = libwayland 1.23.1 wl_closure_print with the repository patches, and the pre-1.22 format',
                       '32-bit integers, 24.8 fixed values and free text are covered by classes, boundaries and seeded samples, not exhaustively']
    return rep


def replay(ctx, data):
    m = e1.mods()
    if data['kind'] == 'split':
        print(repr(data['text']), '->', m.parse.argument_list_strs(data['text']))
        return True
    if data['kind'] == 'session-lines':
        import io
        S = e1.Session()
        class Sink:
            def open_connection(self, *a): return S.cm.open_connection(*a)
            def close_connection(self, *a): return S.cm.close_connection(*a)
            def message(self, cid, message):
                print(cid, [(type(x).__name__, getattr(x, 'name', None), getattr(x, 'type', None) if type(x).__name__ == 'Null' else '') for x in message.args],
                      fresh_aspects(message))
                return S.cm.message(cid, message)
        m.parse.into_sink(io.StringIO('\n'.join(data['lines']) + '\n'), S.output, Sink())
        return True
    m.wl.Message.base_time = 0.0
    try:
        cid, msg = m.parse.message(data['line'].strip())
    except RuntimeError as e:
        print('not a message:', e)
        return data['kind'] == 'line'
    print(cid, str(msg))
    if data['kind'] == 'junk':
        return True
    # re-run the comparison
    ev = data['abstract']
    for dialect, mark in (('old', '.'), ('old', ','), ('new', '.')):
        if printer.line(ev, dialect=dialect, mark=mark).split('] ', 1)[-1].split('> ')[-1].split('} ')[-1] in data['line']:
            bad = compare(ev, dialect, mark, msg, cid, ev['tag'] or 'PARSED')
            print('differences:', bad)
            return bool(bad)
    return True
