"""C04 - messages are attributed to the right connection; connections are isolated."""
import random
import gen, sessionprop, protoextract
from props import sessbase
from props.common import relevant


def iface_session(seed, n):
    """random open / message / close sequence at the connection-id interface (ids re-opened after close)"""
    r = random.Random(seed)
    d = protoextract.load()
    tags = ['x', 'y', 'gdb_conn:0x55d0'][:r.randint(1, 3)]
    live = {}
    ev = []
    t = 1000
    for _ in range(n):
        t += r.choice([1, 500, 1000001])
        c = r.random()
        tag = r.choice(tags)
        if tag not in live or c < 0.12:
            role = r.choice(['client', 'server', 'unknown'])
            ev.append({'in': {'e': 'open', 'tag': tag, 'role': role}})
            live[tag] = gen.ConnGen(r, tag, role == 'server', d['proto'], d['kinds'], set(d['amb_msgs']),
                                    [i for i in gen.CORE_IFACES if i in d['proto']])
            live[tag].started = True
            live[tag].create(2, 'wl_registry')
            live[tag].next_client = 3
            # the registry is created by a message so that the table really holds it
            ev.append({'in': {'e': 'msg', 'tag': tag, 't': t, 'm': {'ttype': 'wl_display', 'tid': 1, 'name': 'get_registry',
                                                                   'sent': role != 'server', 'args': [{'k': 'new', 'type': 'wl_registry', 'id': 2}]}}})
        elif c < 0.22:
            ev.append({'in': {'e': 'close', 'tag': tag}})
            del live[tag]
        elif c < 0.26:
            ev.append({'in': {'e': 'close', 'tag': r.choice(['never-opened', 'x', 'y'])}})
            live.pop(ev[-1]['in']['tag'], None)
        else:
            ev.append({'in': live[tag].next(t)})
    return {'init': dict(sessbase.NOFILTER), 'events': ev, 'mode': 'iface'}


def appid_session(seed, live=False):
    """connections that name themselves, then `connection <application id>` in several spellings, and the listing"""
    r = random.Random(seed)
    # (application ids that are also connection names: a name wins over an application id)
    ids = r.sample(['org.gnome.gedit', 'Firefox', 'com.example.App', 'ALLCAPS', 'kitty', 'a.b.C', 'x', 'b', 'C', 'B', 'a'], 3)
    ev, t = [], 1000
    for k, app in enumerate(ids):
        tag = str(k + 1)
        side = r.random() < 0.3
        t += 500
        ev.append({'in': {'e': 'msg', 'tag': tag, 't': t, 'm': {'ttype': 'wl_display', 'tid': 1, 'name': 'get_registry', 'sent': not side,
                                                             'args': [{'k': 'new', 'type': 'wl_registry', 'id': 2}]}}})
        t += 500
        ev.append({'in': {'e': 'msg', 'tag': tag, 't': t, 'm': {'ttype': 'wl_registry', 'tid': 2, 'name': 'bind', 'sent': not side,
                                                             'args': [{'k': 'int', 'v': 1}, {'k': 'str', 's': 'xdg_toplevel'}, {'k': 'int', 'v': 1}, {'k': 'new', 'type': '', 'id': 3}]}}})
        for name, txt in r.sample([('set_title', 'First title'), ('set_app_id', app), ('set_title', 'Second title'), ('set_app_id', app)], r.randint(1, 4)):
            t += 500
            ev.append({'in': {'e': 'msg', 'tag': tag, 't': t, 'm': {'ttype': 'xdg_toplevel', 'tid': 3, 'name': name, 'sent': not side,
                                                                 'args': [{'k': 'str', 's': txt}]}}})
    nid = 10
    for _ in range(6):
        a = r.choice(ids + ['nobody'])
        ev.append({'in': {'e': 'cmd', 'c': 'conn', 'arg': r.choice([a, a.upper(), a.lower(), a.swapcase(), 'B', 'c', ''])}})
        if r.random() < 0.4:
            ev.append({'in': {'e': 'cmd', 'c': 'conn', 'arg': ''}})
        if live:
            # messages on every connection after each selection: what the live view shows tells which one was selected
            for k in r.sample(range(len(ids)), len(ids)):
                t += 500
                nid += 1
                ev.append({'in': {'e': 'msg', 'tag': str(k + 1), 't': t, 'm': {'ttype': 'wl_display', 'tid': 1, 'name': 'sync', 'sent': True,
                                                                         'args': [{'k': 'new', 'type': 'wl_callback', 'id': nid}]}}})
    ev.append({'in': {'e': 'eof'}})
    ev.append({'in': {'e': 'cmd', 'c': 'conn', 'arg': ''}})
    return {'init': dict(sessbase.NOFILTER), 'events': ev}


def sessions(ctx):
    def it(rep):
        yield from sessbase.model_sessions(ctx, rep, 'MC_Session_conns.cfg', 'all interleavings of two connections using the same ids',
                                           ctx.pick(1000, 15000), override={'MaxLen': ctx.pick(4, 5)},
                                           renders=[{'dialect': 'new'}, {'dialect': 'old'}])
        for k in range(ctx.pick(150, 1500)):
            g = gen.SessionGen(ctx.seed * 15485863 + k, nconn=(2, 5), nmsg=(20, 70), junk=0.05, core=True, cmds=0.12 if k % 2 else 0.0, titles=0.12)
            yield g.session(), {'dialect': 'new'}, 'random-multi'
        yield from sessbase.rich_sessions(ctx, 1000099, ctx.pick(40, 400), nconn=(2, 4), cmds=0.1)
        for k in range(ctx.pick(60, 400)):
            yield appid_session(ctx.seed * 2750159 + k), {'dialect': 'new'}, 'titles-and-appids'
        for k in range(ctx.pick(150, 1500)):
            yield iface_session(ctx.seed * 32452843 + k, ctx.rnd.randint(8, 40)), {'dialect': 'new'}, 'interface'
    return it


def run(ctx):
    rep = sessbase.run_property(ctx, 'C04',
        'P1: TLC checks NamesInOrder / OneOpenPerTag / Isolation / SoloEquivalence / announce-once / closed-once over all '
        'interleavings of two connections that use the same object ids; P2: the interleavings are replayed through the tool; '
        'P3: random logs with 2-5 tagged connections, and random open/message/close sequences driven directly at the '
        'connection-id interface (re-opened ids, closes of unknown ids). Notices, X: prefixes, ConnectionList projections are '
        'compared with Session!Step by TLC.',
        [('MC_Session_conns.cfg', 'C04 interleavings', {'MaxLen': 5})], sessions(ctx))
    # ... and as a real process in file mode
    sessbase.process_batch(ctx, rep, ['new', 'closed', 'connline'], ctx.pick(12, 120), 1000429, nconn=(2, 4))
    return rep


def replay(ctx, data):
    return sessionprop.replay_session(ctx, data, relevant('C04'))
