"""C07 - argument names, nil types and enum labels come from the protocol descriptions."""
import itertools, json, os, shutil, tempfile
import framework, tlc, e1, gen, protoextract, sessionprop
from props import sessbase
from props.common import relevant

LEVEL = 'model_checking'


def xml_for(d):
    """the XML file of a synthetic description (as MC_Protocol defines it)"""
    return xml_for_many([d])


def xml_for_many(ds):
    """one protocol file holding several descriptions, in this order (a file is loaded description by description)"""
    out = ['<?xml version="1.0"?>', '<protocol name="p_%s">' % '_'.join(d['tag'] for d in ds)]
    for d in ds:
        out += _iface_xml(d)
    out += ['</protocol>', '']
    return '\n'.join(out)


def _iface_xml(d):
    out = [' <interface name="%s" version="%d">' % (d['name'], d['version'])]
    for mn, args in d['msgs'].items():
        out.append('  <request name="%s">' % mn)
        for a in args:
            attrs = 'name="%s" type="%s"' % (a['name'], a['type'])
            if a['iface']:
                attrs += ' interface="%s"' % a['iface']
            if a['ename']:
                attrs += ' enum="%s"' % ((a['eiface'] + '.' if a['eiface'] else '') + a['ename'])
            out.append('   <arg %s/>' % attrs)
        out.append('  </request>')
    for en, e in d['enums'].items():
        out.append('  <enum name="%s"%s>' % (en, ' bitfield="true"' if e['bitfield'] else ''))
        for x in e['entries']:
            out.append('   <entry name="%s" value="%d"/>' % (x['name'], x['value']))
        out.append('  </enum>')
    out += [' </interface>']
    return out


def load_orders(ctx, rep):
    """P1 + P2: version precedence and the lookups after every prefix of every order of loading"""
    r = tlc.run_tlc('MC_Protocol.tla', cfg='MC_Protocol.cfg', workers=8)
    if r.violated:
        raise tlc.MachineryError('MC_Protocol violates %s' % r.violated)
    rep.add_tlc(r, 'P1 HighestWins / NothingElse / OrderFree after every prefix of every load order of 6 synthetic descriptions')
    cfg = open(os.path.join(tlc.SPEC, 'MC_Protocol.cfg')).read().replace('INVARIANT HighestWins\nINVARIANT NothingElse\nINVARIANT OrderFree\n', 'ACTION_CONSTRAINT EmitAll\n')
    tmpcfg = os.path.join(tlc.SPEC, '_emit_proto_%d.cfg' % os.getpid())
    open(tmpcfg, 'w').write(cfg)
    try:
        r = tlc.run_tlc('MC_Protocol.tla', cfg=os.path.basename(tmpcfg), workers=1)
    finally:
        os.unlink(tmpcfg)
    prefixes = [json.loads(x[0]) for x in tlc.printed_tuples(r.stdout, 'ORDER')]
    dd = tlc.printed_tuples(r.stdout, 'DESCS')[0]
    descs = {d['tag']: d for d in json.loads(dd[0])}
    questions = json.loads(dd[1])
    rep.add_tlc(r, 'P2 every prefix of every load order with the answers Protocol.tla gives on the table reached')
    if ctx.quick:
        prefixes = ctx.rnd.sample(prefixes, 500)
    m = e1.mods()
    proto = m.protocol
    tmp = tempfile.mkdtemp(prefix='c07-', dir=os.path.join(tlc.OUT, 'tmp'))
    saved = dict(proto.interfaces)
    try:
        paths = {}
        for tag, d in descs.items():
            paths[tag] = os.path.join(tmp, tag + '.xml')
            open(paths[tag], 'w').write(xml_for(d))
        out = m.Output(False, False, m.stream.Null(), m.stream.Null())
        for o in prefixes:
            proto.dump_all()
            # the same order of descriptions, spread over files in some way: one description per file, or consecutive ones
            # sharing a file (a protocol file usually describes several interfaces)
            groups, cur = [], []
            for tag in o['order']:
                if any(descs[t]['name'] == descs[tag]['name'] for t in cur):
                    groups.append(cur)        # (one file does not describe the same interface twice)
                    cur = []
                cur.append(tag)
                if ctx.rnd.random() < 0.5:
                    groups.append(cur)
                    cur = []
            if cur:
                groups.append(cur)
            for g in groups:
                if len(g) == 1:
                    proto.load(paths[g[0]], out)
                else:
                    fp = os.path.join(tmp, 'multi-' + '-'.join(g) + '.xml')
                    if not os.path.exists(fp):
                        open(fp, 'w').write(xml_for_many([descs[t] for t in g]))
                    proto.load(fp, out)
            sig = 'load order ' + ' '.join(o['order']) + ' in files ' + ' | '.join('+'.join(g) for g in groups)
            rep.case(sig)
            rp = {'kind': 'order', 'order': o['order'], 'groups': groups}
            for nm, ver in o['versions'].items():
                got = proto.interfaces.get(nm)
                if got is None:
                    rep.violation('load-order:dropped', 'after %s interface %s is missing' % (sig, nm), rp)
                elif got.version != ver:
                    rep.violation('load-order:not-highest', 'after %s interface %s has version %s, the highest loaded is %s' % (sig, nm, got.version, ver), rp)
            # two descriptions of the same version: either may stay, questions about their messages are not judged
            same = {descs[t]['name'] for t in o['order'] for u in o['order'] if t != u and descs[t]['name'] == descs[u]['name'] and descs[t]['version'] == descs[u]['version']}
            for q, want in zip(questions, o['answers']):
                if q['i'] in same:
                    continue
                got = ask(m, q)
                if got != want:
                    rep.violation('load-order:lookup:%s' % q['q'], 'after %s the %s lookup %s.%s#%d (value %d) answers %r, the table reached says %r'
                                  % (sig, q['q'], q['i'], q['m'], q['k'], q['v'], got, want), rp)
        rep.extra['load_order_prefixes_replayed'] = len(prefixes)
    finally:
        proto.interfaces.clear()
        proto.interfaces.update(saved)
        m.loaded = False
        shutil.rmtree(tmp, ignore_errors=True)


def queries(ctx, pd):
    proto, amb = pd['proto'], set(pd['amb_msgs'])
    qs = []
    for i, body in proto.items():
        for mname, args in body['msgs'].items():
            if (i + '.' + mname) in amb:
                continue
            for k in range(1, len(args) + 2):        # one beyond the last: the description contradicts the message
                qs.append({'q': 'name', 'i': i, 'm': mname, 'k': k, 'v': 0})
                qs.append({'q': 'nil', 'i': i, 'm': mname, 'k': k, 'v': 0})
            for k, a in enumerate(args, 1):
                if not a['ename']:
                    continue
                e = proto.get(a['eiface'] or i, {}).get('enums', {}).get(a['ename'])
                vals = set([0, 1, -1, 2 ** 31 - 1, -2 ** 31])
                if e:
                    ev = [x['value'] for x in e['entries']]
                    vals.update(ev)
                    vals.update(v + 1 for v in ev)
                    if e['bitfield']:
                        combos = []
                        for n in range(2, min(len(ev), 13) + 1):
                            for c in itertools.combinations(ev, n):
                                combos.append(c)
                                if len(combos) > ctx.pick(40, 9000):
                                    break
                            if len(combos) > ctx.pick(40, 9000):
                                break
                        for c in combos:
                            v = 0
                            for x in c:
                                v |= x
                            vals.add(v)
                        vals.add(1 << 30)
                for v in sorted(vals):
                    if -2 ** 31 <= v < 2 ** 31:
                        qs.append({'q': 'enum', 'i': i, 'm': mname, 'k': k, 'v': v})
    # unknown message on a known interface, unknown interface, the bind exemption
    for i in ['wl_surface', 'xdg_toplevel', 'wl_registry']:
        qs.append({'q': 'name', 'i': i, 'm': 'no_such_message', 'k': 1, 'v': 0})
        qs.append({'q': 'enum', 'i': i, 'm': 'no_such_message', 'k': 1, 'v': 1})
    for q in ('name', 'nil', 'enum'):
        qs.append({'q': q, 'i': 'zz_unknown_iface', 'm': 'frob', 'k': 1, 'v': 1})
        for k in (1, 2, 3, 4, 5):
            qs.append({'q': q, 'i': 'wl_registry', 'm': 'bind', 'k': k, 'v': 1})
    return qs


def ask(m, q):
    p = m.protocol
    try:
        if q['q'] == 'name':
            a = p.get_arg_name(q['i'], q['m'], q['k'] - 1)
            return a if a is not None else ''
        if q['q'] == 'nil':
            a = p.look_up_interface(q['i'], q['m'], q['k'] - 1)
            return a if a is not None else ''
        return list(p.look_up_enum(q['i'], q['m'], q['k'] - 1, q['v']))
    except RuntimeError:
        return '!error' if q['q'] != 'enum' else ['!error']


def ask_via_argument(m, q, as_array):
    """the same enum question put the way a session puts it: an integer argument object (or an array argument holding
    integers, as GDB mode delivers arrays) is resolved against the message it belongs to and carries the labels afterwards"""
    A = m.wl.Arg
    msg = type('M', (), {'obj': type('O', (), {'type': q['i']})(), 'name': q['m']})()
    x = A.Int(q['v'])
    top = A.Array([x, A.Int(q['v'])]) if as_array else x
    try:
        top.resolve(None, msg, q['k'] - 1)
    except RuntimeError:
        return ['!error']
    return list(getattr(x, 'labels', []))


def table(ctx, rep):
    m = e1.mods()
    e1.Session()               # makes sure the tool has loaded its descriptions as main() does
    pd = protoextract.load()
    qs = queries(ctx, pd)
    extra = []
    for q in qs:
        q['a'] = ask(m, q)
        rep.case('%s:%s.%s#%d=%d' % (q['q'], q['i'], q['m'], q['k'], q['v']))
        if q['q'] == 'enum' and q['i'] in pd['proto'] and q['m'] in pd['proto'][q['i']]['msgs'] and q['k'] <= len(pd['proto'][q['i']]['msgs'][q['m']]):
            # the same question through the argument objects (scalar, or the elements of an array for array arguments)
            atype = pd['proto'][q['i']]['msgs'][q['m']][q['k'] - 1]['type']
            q2 = dict(q, a=ask_via_argument(m, q, atype == 'array'), via='array-element' if atype == 'array' else 'argument')
            extra.append(q2)
            rep.case('%s:%s.%s#%d=%d' % (q2['via'], q['i'], q['m'], q['k'], q['v']))
    qs = qs + extra
    rep.sample({'question': {k: qs[len(qs) // 2][k] for k in 'qimkv'}, 'tool_answer': qs[len(qs) // 2]['a']})
    path = os.path.join(tlc.OUT, 'tmp', 'c07-%d.json' % os.getpid())
    json.dump({'proto': pd['proto'], 'queries': qs}, open(path, 'w'))
    try:
        r = tlc.run_tlc('TraceProtocol.tla', cfg='TraceProtocol.cfg', env={'TRACE_FILE': path}, workers=16)
    finally:
        os.unlink(path)
    rep.add_tlc(r, 'P4 Protocol!ArgName / NilIface / EnumLabels vs the tool on %d questions' % len(qs))
    rep.extra['lookup_questions'] = len(qs)
    rep.extra['interfaces'] = len(pd['proto'])
    rep.traces += len(qs)
    for d in tlc.printed_tuples(r.stdout, 'DIFF'):
        q = d[1]
        rep.violation('lookup:%s:%s.%s' % (q.get('via', q['q']), q['i'], q['m']),
                      '%s lookup%s for %s.%s argument %d value %d: the tool answers %r, the descriptions say %r'
                      % (q['q'], ' (through the %s object)' % q['via'] if 'via' in q else '', q['i'], q['m'], q['k'], q['v'], q['a'], tlc.unset(d[2])),
                      {'kind': 'lookup', 'q': {k: q[k] for k in 'qimkv'}})


def sessions(ctx):
    for k in range(ctx.pick(120, 1200)):
        g = gen.SessionGen(ctx.seed * 179424673 + k, nconn=(1, 2), nmsg=(25, 60), junk=0.02, core=False)
        yield g.session(), {'dialect': ctx.rnd.choice(['old', 'new'])}, 'all-interfaces'


def run(ctx):
    rep = framework.Report(ctx, LEVEL)
    load_orders(ctx, rep)
    table(ctx, rep)
    sessionprop.run_sessions(ctx, rep, sessions(ctx), relevant('C07'))
    rep.rule = ('P1/P2: TLC explores all 720 orders of loading 6 synthetic descriptions (2 interfaces, versions 1-3, equal versions with '
                'different content) and the same files are loaded by the real protocol.load in those orders; P4: every interface x '
                'message x argument position (incl. one beyond the last, unknown messages/interfaces, the bind exemption) and, for every '
                'enum-typed argument, every entry value, value+1, unions of bitfield entries, 0, -1 and the extremes are asked of the real '
                'lookups; TLC evaluates Protocol.tla on independently extracted descriptions and compares; P3: sessions over all shipped '
                'interfaces, the name= / value:label / null-type tokens on the output lines validated by TLC. A case is one question or order.')
    rep.assumptions = list(sessbase.ASSUME) + ['harness/protoextract.py (xml.dom.minidom) reads the XML files correctly; it shares no code with core/wl/protocol.py',
                                               'messages whose descriptions differ between two files of the same interface version are not judged']
    # decoration of closures as the real plugin in the real gdb reports them (null objects arrive with their declared interface)
    from props import c15
    c15.real_gdb_sessions(ctx, rep, rel=relevant('C07'), n=ctx.pick(6, 50), salt=104723, tag='real-gdb-decoration', destroy=0.03,
                           extra=[c15.null_objects_session(False), c15.null_objects_session(True)])
    # ... and as a real process (file / run mode), compared with the in-process run
    from props import sessbase as _sb
    _sb.process_batch(ctx, rep, ['msg'], ctx.pick(10, 100), 1000457, cmds_after=2, core=False)
    return rep


def replay(ctx, data):
    if data['kind'] == 'lookup':
        m = e1.mods()
        e1.Session()
        print('the tool answers', ask(m, data['q']))
        return True
    if data['kind'] == 'order':
        print('order of loading', data['order'], 'spread over files', data.get('groups'))
        return True
    return sessionprop.replay_session(ctx, data, relevant('C07'))
