"""C07 - argument names, nil types and enum labels come from the protocol descriptions."""
import itertools, json, os, shutil, tempfile
import framework, tlc, e1, gen, protoextract, sessionprop
from props import sessbase
from props.common import relevant

LEVEL = 'model_checking'


def xml_for(d):
    # a description whose content identifies it: an event named after the body
    return ('<?xml version="1.0"?>\n<protocol name="p_%s">\n <interface name="%s" version="%d">\n'
            '  <event name="%s"><arg name="x_%s" type="uint"/></event>\n </interface>\n</protocol>\n'
            % (d['body'], d['name'], d['version'], d['body'], d['body']))


def load_orders(ctx, rep):
    """P1 + P2: version precedence for every order of loading"""
    r = tlc.run_tlc('MC_Protocol.tla', cfg='MC_Protocol.cfg', workers=8)
    if r.violated:
        raise tlc.MachineryError('MC_Protocol violates %s' % r.violated)
    rep.add_tlc(r, 'P1 HighestWins / NothingElse / OrderFree after every prefix of every load order of 6 synthetic descriptions')
    cfg = open(os.path.join(tlc.SPEC, 'MC_Protocol.cfg')).read().replace('INVARIANT HighestWins\nINVARIANT NothingElse\nINVARIANT OrderFree\n', 'ACTION_CONSTRAINT Emit\n')
    tmpcfg = os.path.join(tlc.SPEC, '_emit_proto_%d.cfg' % os.getpid())
    open(tmpcfg, 'w').write(cfg)
    try:
        r = tlc.run_tlc('MC_Protocol.tla', cfg=os.path.basename(tmpcfg), workers=1)
    finally:
        os.unlink(tmpcfg)
    orders = [json.loads(x[0]) for x in tlc.printed_tuples(r.stdout, 'ORDER')]
    rep.add_tlc(r, 'P2 load orders emitted')
    if ctx.quick:
        orders = ctx.rnd.sample(orders, 150)
    m = e1.mods()
    proto = m.protocol
    tmp = tempfile.mkdtemp(prefix='c07-', dir=os.path.join(tlc.OUT, 'tmp'))
    saved = dict(proto.interfaces)
    try:
        paths = {}
        for o in orders[:1]:
            for d in o['order']:
                p = os.path.join(tmp, d['body'] + '.xml')
                open(p, 'w').write(xml_for(d))
                paths[d['body']] = p
        out = m.Output(False, False, m.stream.Null(), m.stream.Null())
        for o in orders:
            proto.dump_all()
            seen = {}
            for d in o['order']:
                proto.load(paths[d['body']], out)
                seen.setdefault(d['name'], []).append(d)
                for nm, ds in seen.items():
                    best = max(x['version'] for x in ds)
                    ok_bodies = {x['body'] for x in ds if x['version'] == best}
                    got = proto.interfaces.get(nm)
                    sig = 'order:' + ','.join(x['body'] for x in o['order'])
                    if got is None:
                        rep.violation('load-order:dropped', 'after loading %s interface %s is missing' % (sig, nm), {'kind': 'order', 'order': o['order']})
                    elif got.version != best or not (set(got.messages) & ok_bodies):
                        rep.violation('load-order:not-highest', 'after loading %s interface %s has version %s / messages %s, the highest loaded is %s (%s)'
                                      % (sig, nm, got.version, list(got.messages), best, sorted(ok_bodies)), {'kind': 'order', 'order': o['order']})
            rep.case('order:' + ','.join(x['body'] for x in o['order']))
        rep.extra['load_orders_replayed'] = len(orders)
    finally:
        proto.interfaces.clear()
        proto.interfaces.update(saved)
        m.loaded = False
        shutil.rmtree(tmp, ignore_errors=True)


def queries(ctx, pd):
    proto, amb = pd['proto'], set(pd['amb_msgs'])
    qs = []
    for i, body in proto.items():
        for mname, args in body['msgs'].items():
            if (i + '.' + mname) in amb:
                continue
            for k in range(1, len(args) + 2):        # one beyond the last: the description contradicts the message
                qs.append({'q': 'name', 'i': i, 'm': mname, 'k': k, 'v': 0})
                qs.append({'q': 'nil', 'i': i, 'm': mname, 'k': k, 'v': 0})
            for k, a in enumerate(args, 1):
                if not a['ename']:
                    continue
                e = proto.get(a['eiface'] or i, {}).get('enums', {}).get(a['ename'])
                vals = set([0, 1, -1, 2 ** 31 - 1, -2 ** 31])
                if e:
                    ev = [x['value'] for x in e['entries']]
                    vals.update(ev)
                    vals.update(v + 1 for v in ev)
                    if e['bitfield']:
                        combos = []
                        for n in range(2, min(len(ev), 13) + 1):
                            for c in itertools.combinations(ev, n):
                                combos.append(c)
                                if len(combos) > ctx.pick(40, 9000):
                                    break
                            if len(combos) > ctx.pick(40, 9000):
                                break
                        for c in combos:
                            v = 0
                            for x in c:
                                v |= x
                            vals.add(v)
                        vals.add(1 << 30)
                for v in sorted(vals):
                    if -2 ** 31 <= v < 2 ** 31:
                        qs.append({'q': 'enum', 'i': i, 'm': mname, 'k': k, 'v': v})
    # unknown message on a known interface, unknown interface, the bind exemption
    for i in ['wl_surface', 'xdg_toplevel', 'wl_registry']:
        qs.append({'q': 'name', 'i': i, 'm': 'no_such_message', 'k': 1, 'v': 0})
        qs.append({'q': 'enum', 'i': i, 'm': 'no_such_message', 'k': 1, 'v': 1})
    for q in ('name', 'nil', 'enum'):
        qs.append({'q': q, 'i': 'zz_unknown_iface', 'm': 'frob', 'k': 1, 'v': 1})
        for k in (1, 2, 3, 4, 5):
            qs.append({'q': q, 'i': 'wl_registry', 'm': 'bind', 'k': k, 'v': 1})
    return qs


def ask(m, q):
    p = m.protocol
    try:
        if q['q'] == 'name':
            a = p.get_arg_name(q['i'], q['m'], q['k'] - 1)
            return a if a is not None else ''
        if q['q'] == 'nil':
            a = p.look_up_interface(q['i'], q['m'], q['k'] - 1)
            return a if a is not None else ''
        return list(p.look_up_enum(q['i'], q['m'], q['k'] - 1, q['v']))
    except RuntimeError:
        return '!error' if q['q'] != 'enum' else ['!error']


def table(ctx, rep):
    m = e1.mods()
    e1.Session()               # makes sure the tool has loaded its descriptions as main() does
    pd = protoextract.load()
    qs = queries(ctx, pd)
    for q in qs:
        q['a'] = ask(m, q)
        rep.case('%s:%s.%s#%d=%d' % (q['q'], q['i'], q['m'], q['k'], q['v']))
    rep.sample({'question': {k: qs[len(qs) // 2][k] for k in 'qimkv'}, 'tool_answer': qs[len(qs) // 2]['a']})
    path = os.path.join(tlc.OUT, 'tmp', 'c07-%d.json' % os.getpid())
    json.dump({'proto': pd['proto'], 'queries': qs}, open(path, 'w'))
    try:
        r = tlc.run_tlc('TraceProtocol.tla', cfg='TraceProtocol.cfg', env={'TRACE_FILE': path}, workers=16)
    finally:
        os.unlink(path)
    rep.add_tlc(r, 'P4 Protocol!ArgName / NilIface / EnumLabels vs the tool on %d questions' % len(qs))
    rep.extra['lookup_questions'] = len(qs)
    rep.extra['interfaces'] = len(pd['proto'])
    rep.traces += len(qs)
    for d in tlc.printed_tuples(r.stdout, 'DIFF'):
        q = d[1]
        rep.violation('lookup:%s:%s.%s' % (q['q'], q['i'], q['m']),
                      '%s lookup for %s.%s argument %d value %d: the tool answers %r, the descriptions say %r'
                      % (q['q'], q['i'], q['m'], q['k'], q['v'], q['a'], tlc.unset(d[2])), {'kind': 'lookup', 'q': {k: q[k] for k in 'qimkv'}})


def sessions(ctx):
    for k in range(ctx.pick(120, 1200)):
        g = gen.SessionGen(ctx.seed * 179424673 + k, nconn=(1, 2), nmsg=(25, 60), junk=0.02, core=False)
        yield g.session(), {'dialect': ctx.rnd.choice(['old', 'new'])}, 'all-interfaces'


def run(ctx):
    rep = framework.Report(ctx, LEVEL)
    load_orders(ctx, rep)
    table(ctx, rep)
    sessionprop.run_sessions(ctx, rep, sessions(ctx), relevant('C07'))
    rep.rule = ('P1/P2: TLC explores all 720 orders of loading 6 synthetic descriptions (2 interfaces, versions 1-3, equal versions with '
                'different content) and the same files are loaded by the real protocol.load in those orders; P4: every interface x '
                'message x argument position (incl. one beyond the last, unknown messages/interfaces, the bind exemption) and, for every '
                'enum-typed argument, every entry value, value+1, unions of bitfield entries, 0, -1 and the extremes are asked of the real '
                'lookups; TLC evaluates Protocol.tla on independently extracted descriptions and compares; P3: sessions over all shipped '
                'interfaces, the name= / value:label / null-type tokens on the output lines validated by TLC. A case is one question or order.')
    rep.assumptions = list(sessbase.ASSUME) + ['harness/protoextract.py (xml.dom.minidom) reads the XML files correctly; it shares no code with core/wl/protocol.py',
                                               'messages whose descriptions differ between two files of the same interface version are not judged']
    return rep


def replay(ctx, data):
    if data['kind'] == 'lookup':
        m = e1.mods()
        e1.Session()
        print('the tool answers', ask(m, data['q']))
        return True
    if data['kind'] == 'order':
        print('order', [d['body'] for d in data['order']])
        return True
    return sessionprop.replay_session(ctx, data, relevant('C07'))
