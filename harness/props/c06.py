"""C06 - the live view shows exactly the messages matching the current filter."""
import gen, sessionprop
from props import sessbase
from props.common import relevant


def sessions(ctx):
    def it(rep):
        yield from sessbase.model_sessions(ctx, rep, 'MC_Session_live.cfg', 'filter / selection changes at every point of the history',
                                           ctx.pick(1200, 20000), override={'MaxLen': ctx.pick(4, 5)})
        for k in range(ctx.pick(200, 2000)):
            g = gen.SessionGen(ctx.seed * 49979687 + k, nconn=(1, 3), nmsg=(15, 45), junk=0.05, cmds=0.25, core=True, unresolved=0.08,
                               matcher_depth=k % 3, with_init_filter=0.4)
            yield g.session(), {'dialect': ctx.rnd.choice(['old', 'new'])}, 'random-live'
        from props import c04
        for k in range(ctx.pick(60, 600)):
            yield c04.appid_session(ctx.seed * 2750161 + k, live=True), {'dialect': 'new'}, 'selection-by-name-or-application-id'
        yield from sessbase.rich_sessions(ctx, 1000037, ctx.pick(40, 400), cmds=0.25, with_init_filter=0.4)
    return it


def run(ctx):
    rep = sessbase.run_property(ctx, 'C06',
        'P1: TLC checks ShownIffSelected / RecordedAll / CommandsDoNotRewrite / HistoryAppendOnly over all behaviours of two '
        'connections with filter and connection-selection commands inserted at every point; P2: the behaviours are replayed '
        '(commands issued between lines); P3: random sessions with generated matchers (from -f and `filter`), selections and '
        'queries. Which message lines appear in each step and the recorded history are compared with Session!Step by TLC.',
        [('MC_Session_live.cfg', 'C06 live view')], sessions(ctx))
    # the same through GDB mode (`wl ...` commands typed while the program is halted, messages arriving as closures)
    from props import gdbbase
    gdbbase.gdb_batch(ctx, rep, relevant('C06'), ctx.pick(40, 400), 1000303)
    return rep


def replay(ctx, data):
    return sessionprop.replay_session(ctx, data, relevant('C06'))
