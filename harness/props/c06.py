"""C06 - the live view shows exactly the messages matching the current filter."""
import mrender, gen, sessionprop
from props import sessbase
from props.common import relevant


def blanks_session(seed):
    """texts that differ only in their white space (runs of blanks, a tab) arrive as string arguments; a filter naming one of
    them exactly is typed as a command (or given with -f) in the middle"""
    import random
    r = random.Random(seed)
    texts = ['Report  -  draft', 'Report - draft', 'Report   -   draft', 'tabs\t\tx', 'tabs\tx', 'tabs x', ' lead', 'lead']
    ev, t = [], 1000
    def msg(name, args, tid=3, ty='xdg_toplevel'):
        nonlocal t
        t += 700
        ev.append({'in': {'e': 'msg', 'tag': '', 't': t, 'm': {'ttype': ty, 'tid': tid, 'name': name, 'sent': True, 'args': args}}})
    msg('get_registry', [{'k': 'new', 'type': 'wl_registry', 'id': 2}], 1, 'wl_display')
    msg('bind', [{'k': 'int', 'v': 1}, {'k': 'str', 's': 'xdg_toplevel'}, {'k': 'int', 'v': 1}, {'k': 'new', 'type': '', 'id': 3}], 2, 'wl_registry')
    for x in r.sample(texts, 4):
        msg('set_title', [{'k': 'str', 's': x}])
    pick = r.choice(texts[:6])
    ast = mrender.pat_full(args=mrender.args([mrender.arg({'k': 'str', 's': pick})]))
    init = dict(sessbase.NOFILTER)
    if r.random() < 0.3:
        init.update(hasf=True, f=ast)
    else:
        ev.append({'in': {'e': 'cmd', 'c': r.choice(['filter', 'filter', 'break']), 'hasarg': True, 'ok': True, 'ast': ast, 'spell': ['', '', []]}})
    for x in r.sample(texts, len(texts)):
        msg('set_title', [{'k': 'str', 's': x}])
    ev.append({'in': {'e': 'cmd', 'c': 'list', 'hasm': True, 'ok': True, 'cap': -1, 'caperr': False, 'ast': ast, 'spell': ['', '', []]}})
    ev.append({'in': {'e': 'eof'}})
    return {'init': init, 'events': ev}


def sessions(ctx):
    def it(rep):
        yield from sessbase.model_sessions(ctx, rep, 'MC_Session_live.cfg', 'filter / selection changes at every point of the history',
                                           ctx.pick(1200, 20000), override={'MaxLen': ctx.pick(4, 5)})
        for k in range(ctx.pick(200, 2000)):
            g = gen.SessionGen(ctx.seed * 49979687 + k, nconn=(1, 3), nmsg=(15, 45), junk=0.05, cmds=0.25, core=True, unresolved=0.08,
                               matcher_depth=k % 3, with_init_filter=0.4)
            yield g.session(), {'dialect': ctx.rnd.choice(['old', 'new'])}, 'random-live'
        for k in range(ctx.pick(24, 200)):
            yield blanks_session(ctx.seed * 2750171 + k), {'dialect': 'new' if k % 2 else 'old'}, 'texts-differing-in-white-space'
        from props import c04
        for k in range(ctx.pick(60, 600)):
            yield c04.appid_session(ctx.seed * 2750161 + k, live=True), {'dialect': 'new'}, 'selection-by-name-or-application-id'
        yield from sessbase.rich_sessions(ctx, 1000037, ctx.pick(40, 400), cmds=0.25, with_init_filter=0.4)
    return it


def run(ctx):
    rep = sessbase.run_property(ctx, 'C06',
        'P1: TLC checks ShownIffSelected / RecordedAll / CommandsDoNotRewrite / HistoryAppendOnly over all behaviours of two '
        'connections with filter and connection-selection commands inserted at every point; P2: the behaviours are replayed '
        '(commands issued between lines); P3: random sessions with generated matchers (from -f and `filter`), selections and '
        'queries. Which message lines appear in each step and the recorded history are compared with Session!Step by TLC.',
        [('MC_Session_live.cfg', 'C06 live view')], sessions(ctx))
    # the same through GDB mode (`wl ...` commands typed while the program is halted, messages arriving as closures)
    from props import gdbbase
    gdbbase.gdb_batch(ctx, rep, relevant('C06'), ctx.pick(40, 400), 1000303)
    # ... and as a real process in file mode
    sessbase.process_batch(ctx, rep, ['msg', 'none', 'counts'], ctx.pick(12, 120), 1000403)
    return rep


def replay(ctx, data):
    return sessionprop.replay_session(ctx, data, relevant('C06'))
