"""C13 - file, pipe and run modes show the same thing; run mode is transparent."""
import copy, json, os, shutil, subprocess, sys, tempfile, threading, time
from concurrent.futures import ThreadPoolExecutor
import framework, tlc, e1, gen, lexer, printer
from props import sessbase

LEVEL = 'model_checking'
REPO = e1.REPO
PY = '/venv/bin/python'
CHILD = os.path.join(os.path.dirname(os.path.dirname(os.path.abspath(__file__))), 'child.py')
ENV = dict(os.environ, LANG='C.UTF-8', LC_ALL='C.UTF-8', PYTHONHASHSEED='0', PYTHONIOENCODING='utf-8')
ENV.pop('WAYLAND_DEBUG', None)
ENV.pop('PYTHONUNBUFFERED', None)      # the tool as users run it: its standard output is block-buffered when it is a pipe


def stream_of(trace, render):
    """[(line number, text)] for the message / chatter lines of a session"""
    out = []
    for e in trace['events']:
        ev = e['in']
        if ev['e'] == 'msg':
            out.append(printer.line(ev, **render))
        elif ev['e'] == 'junk':
            out.append(ev['text'])
    return out


def chunkings(text, r, n):
    """ways of splitting the stream into writes: whole, per line, per byte (short), random cuts incl. mid-line"""
    b = text
    res = [[b], [l for l in b.splitlines(True)]]
    for _ in range(n):
        k = r.randint(1, 6)
        cuts = sorted(set(r.randint(1, max(1, len(b) - 1)) for _ in range(k)))
        parts, last = [], 0
        for c in cuts:
            parts.append(b[last:c])
            last = c
        parts.append(b[last:])
        res.append([p for p in parts if p])
    return res


def items_of(stdout):
    """lex the tool's stdout; the program's own lines and the prompt are taken out.

    The tool's stdout is block-buffered when it is not a terminal while the program writes its lines at once, so a line of
    the program can land in the middle of one of the tool's: the marked lines are cut out wherever they are."""
    import re
    child = [m.group(1) for m in re.finditer(r'CHILD-STDOUT ([^\n]*)\n', stdout)]
    text = re.sub(r'CHILD-STDOUT [^\n]*\n', '', stdout).replace('wl debug $ ', '')
    items = [lexer.lex_out(ln) for ln in text.split('\n') if ln != '']
    return items, child


def norm(keys):
    """the order of the closing notices at end of input is not specified: sort that run"""
    out = list(keys)
    i = len(out)
    while i > 0 and '"k": "closed"' in out[i - 1]:
        i -= 1
    return out[:i] + sorted(out[i:])


def key_of(item):
    """an item reduced to what identifies it (for comparing displays across modes)"""
    # (free-form output is identified by its kind; a passed-through line by its text as well)
    return json.dumps({k: v for k, v in item.items() if k != 'text' or item.get('k') == 'junk'}, sort_keys=True)


def run_tool(args, stdin_data=None, feeder=None, timeout=60, env=None):
    p = subprocess.Popen([PY, os.path.join(REPO, 'main.py')] + args, cwd=REPO, env=env or ENV, stdin=subprocess.PIPE,
                         stdout=subprocess.PIPE, stderr=subprocess.PIPE)
    if feeder is not None:
        bufs = {}

        def rd(name, f):
            bufs[name] = f.read()
        ths = [threading.Thread(target=rd, args=('out', p.stdout)), threading.Thread(target=rd, args=('err', p.stderr))]
        for t in ths:
            t.start()
        feeder(p.stdin)
        try:
            p.wait(timeout=timeout)
        except subprocess.TimeoutExpired:
            p.kill()
            raise tlc.MachineryError('the tool did not finish in pipe mode within %ss' % timeout)
        for t in ths:
            t.join()
        out, err = bufs['out'], bufs['err']
    else:
        out, err = p.communicate(stdin_data, timeout=timeout)
    return p.returncode, out.decode('utf-8', 'replace'), err.decode('utf-8', 'replace')


def one_case(case):
    """runs the three modes for one (stream, chunking, delays, status, extra argv); returns observations"""
    tmp = case['tmp']
    lines, chunks, status, extra = case['lines'], case['chunks'], case['status'], case['extra']
    text = ''.join(chunks)
    n = case['n']
    logf = os.path.join(tmp, 'log%d.txt' % n)
    enc = case.get('enc', 'utf-8')
    with open(logf, 'wb') as f:
        f.write(text.encode(enc))
    sched = os.path.join(tmp, 'sched%d.json' % n)
    json.dump({'chunks': [[case['delays'][i], c] for i, c in enumerate(chunks)], 'status': status,
               'stdout': [[0, 'first'], [len(chunks), 'last']], 'linger': case['linger'], 'close_err': case.get('close_err', False), 'enc': enc, 'orphan': case.get('orphan', 0)}, open(sched, 'w'))
    obs = {}
    opts = list(case.get('opts', []))
    rc, out, err = run_tool(opts + ['-l', logf], b'quit\n')
    obs['file'] = (rc, out, err)

    def feeder(stdin):
        try:
            for i, c in enumerate(chunks):
                if case['delays'][i]:
                    time.sleep(case['delays'][i])
                stdin.write(c.encode(enc))
                stdin.flush()
        except BrokenPipeError:
            pass
        finally:
            try:
                stdin.close()
            except Exception:
                pass
    rc, out, err = run_tool(opts + ['-p'], feeder=feeder)
    obs['pipe'] = (rc, out, err)
    # the tool's own environment may already hold a WAYLAND_DEBUG (unset, or some other value than 1): the program gets 1
    wd = case.get('wdebug')
    rc, out, err = run_tool(opts + ['-r', PY, CHILD, sched] + extra, b'resume\n', env=None if wd is None else dict(ENV, WAYLAND_DEBUG=wd))
    obs['run'] = (rc, out, err)
    return obs


def run(ctx):
    rep = framework.Report(ctx, LEVEL)
    r = ctx.rnd
    # P1: the model - every chunking and every interleaving of child / helper thread / reader / main
    for s in 'ABCD':
        res = tlc.run_tlc('MC_RunMode.tla', cfg='MC_RunMode_%s.cfg' % s, workers=8)
        if res.violated:
            raise tlc.MachineryError('RunMode violates %s on stream %s' % (res.violated, s))
        rep.add_tlc(res, 'P1 RunMode stream %s: Delivered / AllBeforeStatus / StatusPropagated / NeverInitial / Terminates over all chunkings and interleavings' % s)
        import witness
        witness.require(rep, 'MC_RunMode.tla', 'MC_RunMode_%s.cfg' % s)
    # P2: real processes
    tmp = tempfile.mkdtemp(prefix='c13-', dir=os.path.join(tlc.OUT, 'tmp'))
    cases = []
    statuses = ctx.pick([0, 1, 3, 99, 127, 200, 255], list(range(256)))
    EXTRA = [[], ['-f', 'x'], ['-g', '--run', '-C'], ['--load', 'a b', '-r'], ['-Cr', '-p'], ['a"b', 'c\\d', "it's", ''], ['--', '-l'], ['-b', '!']]
    nsess = ctx.pick(5, 24)
    try:
        for k in range(nsess):
            g = gen.SessionGen(ctx.seed * 8191 + k, nconn=(1, 2), nmsg=(4, 14), junk=0.3, core=True)
            s = g.session()
            s['events'] = [e for e in s['events'] if e['in']['e'] in ('msg', 'junk')]
            render = {'dialect': r.choice(['old', 'new'])}
            lines = stream_of(s, render)
            # make chatter lines identifiable and non-empty; the last line may lack its newline
            lines = [l if l.strip() else 'blank-%d' % i for i, l in enumerate(lines)]
            for i, e in enumerate(s['events']):
                if e['in']['e'] == 'junk':
                    e['in']['text'] = lines[i].strip()
            text = '\n'.join(lines) + ('\n' if k % 3 else '')
            # every third stream is shown with --supress (in all three modes): chatter is then left out
            sup = k % 3 == 2
            s['init'] = dict(sessbase.NOFILTER, show=not sup)
            ref = copy.deepcopy(s)
            ref['events'].append({'in': {'e': 'eof'}})
            e1.run(ref, render=render)
            want = norm([key_of(i) for e in ref['events'] for i in e['obs']['items']])
            for chunks in chunkings(text, r, ctx.pick(2, 6)):
                for fast in (True, False):
                    n = len(cases)
                    cases.append({'tmp': tmp, 'n': n, 'lines': lines, 'chunks': chunks, 'status': statuses[n % len(statuses)],
                                  'extra': EXTRA[n % len(EXTRA)], 'delays': [0 if fast else r.choice([0, 0.03]) for _ in chunks],
                                  'linger': 0 if n % 2 else 0.05, 'want': want, 'session': k, 'opts': ['--supress'] if sup else [], 'wdebug': [None, None, '0', 'client', '', 'server', '1'][n % 7],
                                  'chatter': [lines[i] for i, e in enumerate(s['events']) if e['in']['e'] == 'junk']})
        # the writer schedules of the model (RunMode!ChildWrite: every composition of the 6 abstract bytes of streams A / B),
        # executed for real: abstract bytes are the two halves of line 1, its newline, the two halves of line 2, its newline
        res = tlc.run_tlc('RunSchedules.tla', cfg='RunSchedules.cfg', workers=1)
        comps = json.loads(tlc.printed_tuples(res.stdout, 'SCHEDULES')[0][0])
        rep.add_tlc(res, 'RunSchedules: the %d writer schedules of a 6-byte stream' % len(comps))
        g = gen.SessionGen(ctx.seed * 8191 + 999, nconn=(1, 1), nmsg=(2, 2), junk=0.0, core=True, zero_start=0.0)
        s2 = g.session()
        s2['events'] = [e for e in s2['events'] if e['in']['e'] == 'msg'][:2]
        s2['init'] = dict(sessbase.NOFILTER)
        l1, l2 = stream_of(s2, {'dialect': 'new'})
        for last_nl in (True, False):
            pieces = [l1[:len(l1) // 2], l1[len(l1) // 2:], '\n', l2[:len(l2) // 2], l2[len(l2) // 2:]] + (['\n'] if last_nl else [])
            ref = copy.deepcopy(s2)
            ref['events'].append({'in': {'e': 'eof'}})
            e1.run(ref, render={'dialect': 'new'})
            want2 = norm([key_of(i) for e in ref['events'] for i in e['obs']['items']])
            for sch in comps:
                comp, close_err = sch['writes'], sch['closeErr']
                if sum(comp) != len(pieces):
                    comp = [c for c in comp]
                    # stream B has 5 abstract bytes: use the compositions of the first 5
                    tot, cut = 0, []
                    for c in comp:
                        if tot + c > len(pieces):
                            c = len(pieces) - tot
                        if c > 0:
                            cut.append(c)
                        tot += c
                    comp = cut
                chunks, pos = [], 0
                for c in comp:
                    chunks.append(''.join(pieces[pos:pos + c]))
                    pos += c
                if ctx.quick and len(cases) % 2:
                    pass
                n = len(cases)
                cases.append({'tmp': tmp, 'n': n, 'lines': [l1, l2], 'chunks': chunks, 'status': statuses[n % len(statuses)],
                              'extra': EXTRA[n % len(EXTRA)], 'delays': [0.01 if (n % 3 == 0 and i) else 0 for i in range(len(chunks))],
                              'linger': (1.3 if n % 4 else 2.2) if close_err else (0 if n % 2 else 0.03), 'close_err': close_err,
                              'want': want2, 'session': -1})
        # a program that writes everything at once, exits, and leaves a silent helper process behind that holds its standard
        # error open for a while: every line is still processed, the exit status is the program's
        for j in range(ctx.pick(3, 8)):
            src = [c for c in cases if c['session'] >= 0][j * 3 % max(1, len([c for c in cases if c['session'] >= 0]))]
            n = len(cases)
            whole = ''.join(src['chunks'])
            cases.append(dict(src, n=n, chunks=[whole], delays=[0], linger=0, orphan=1.3, status=statuses[n % len(statuses)], session=-3))
        # streams that are not valid UTF-8 (every character below is one byte): the three modes must still show the same
        # thing; there is no line-by-line reference for these, file mode is the reference
        for j, (b1, b2) in enumerate([('caf\xe9 starting up', 'caf\xe9_manager_v1'), ('\xff\xfe\xfd', 'x\x80y'), ('ok \xc3( broken', '\xe2\x82'),
                                      ('\xf0\x9f\x98', 'tail \xc0\xaf')][:ctx.pick(2, 4)]):
            blines = [b1, '[1000.100]  -> wl_display@1.get_registry(new id wl_registry@2)',
                      '[1000.200]  -> wl_registry@2.bind(1, "%s", 1, new id [unknown]@3)' % b2, 'more ' + b1, '[1000.300]  -> wl_display@1.sync(new id wl_callback@4)']
            btext = '\n'.join(blines) + ('\n' if j % 2 == 0 else '')
            # the reference: the same lines with every undecodable byte replaced (what all three modes do), fed line by line
            dec = [l.encode('latin-1').decode('utf-8', 'replace') for l in blines]
            bref = {'init': dict(sessbase.NOFILTER), 'events': [{'in': {'e': 'line', 'raw': l}} for l in dec] + [{'in': {'e': 'eof'}}]}
            if j % 2:
                bref['events'][-2]['in']['nonl'] = True
            e1.run(bref, render={'dialect': 'new'})
            bwant = None if 'escaped' in bref else norm([key_of(i) for e in bref['events'] for i in e['obs']['items']])
            for chunks in chunkings(btext, r, 2):
                n = len(cases)
                cases.append({'tmp': tmp, 'n': n, 'lines': blines, 'chunks': chunks, 'status': statuses[n % len(statuses)], 'extra': [],
                              'delays': [0] * len(chunks), 'linger': 0, 'want': bwant, 'session': -2, 'enc': 'latin-1'})
        if ctx.quick:
            keep = ([c for c in cases if c['session'] not in (-1,)] + ctx.rnd.sample([c for c in cases if c['session'] == -1 and not c['close_err']], 20)
                    + ctx.rnd.sample([c for c in cases if c['session'] == -1 and c['close_err']], 6))
            cases = [dict(c, n=i) for i, c in enumerate(keep)]
        with ThreadPoolExecutor(max_workers=12) as ex:
            results = list(ex.map(one_case, cases))
        runs = []
        for case, obs in zip(cases, results):
            rep.case(json.dumps([case['chunks'], case['status'], case['extra']]))
            rp = {'kind': 'modes', 'chunks': case['chunks'], 'status': case['status'], 'extra': case['extra'], 'delays': case['delays'], 'want': case['want'],
                  'linger': case['linger'], 'close_err': case.get('close_err', False), 'enc': case.get('enc', 'utf-8'), 'opts': case.get('opts', []), 'wdebug': case.get('wdebug'), 'orphan': case.get('orphan', 0)}
            shown = {}
            for mode in ('file', 'pipe', 'run'):
                rc, out, err = obs[mode]
                items, child = items_of(out)
                shown[mode] = norm([key_of(i) for i in items])
                if 'Traceback' in err or 'Traceback' in out:
                    rep.violation('traceback:' + mode, '%s mode prints a traceback: %s' % (mode, (err + out)[-300:]), rp)
                if mode == 'run':
                    argv_line = [c for c in child if c.startswith('argv=')]
                    want_child = ['argv=' + json.dumps(case['extra']) + ' WAYLAND_DEBUG=1', 'first', 'last']
                    if child != want_child:
                        rep.violation('run:child-stdout-or-argv', 'the program\'s own stdout / argv / environment are not untouched: %r, expected %r'
                                      % (child, want_child), rp)
                    if rc != case['status']:
                        rep.violation('run:exit-status', 'wayland-debug exits with %s, the program exited with %s' % (rc, case['status']), rp)
                else:
                    if rc != 0:
                        rep.violation(mode + ':exit-status', '%s mode exits with %s' % (mode, rc), rp)
                # which lines were processed, for TLC: every displayed item that stems from an input line
                runs.append({'mode': mode, 'status': case['status'], 'ret': rc if rc is not None else -1,
                             'stream': [], 'delivered': []})
            if case['want'] is None:
                case = dict(case, want=shown['file'])
            for mode in ('file', 'pipe', 'run'):
                if shown[mode] != case['want']:
                    first = next((i for i, (a, b) in enumerate(zip(shown[mode], case['want'])) if a != b), min(len(shown[mode]), len(case['want'])))
                    rep.violation('display-differs:' + mode,
                                  '%s mode shows something else than the same stream fed line by line (item %d: %s vs %s; %d vs %d items)'
                                  % (mode, first, shown[mode][first:first + 1], case['want'][first:first + 1], len(shown[mode]), len(case['want'])), rp)
            # trace for TLC: the stream as bytes tagged with line numbers, the delivered lines as line numbers
            text = ''.join(case['chunks'])
            # (one byte per line is enough for TLC: what matters is which lines exist and whether the last one is terminated)
            stream = []
            parts = text.split('\n')
            if case.get('opts') == ['--supress']:
                # chatter is left out of the display: the lines that count are the message lines
                chatter = set(case.get('chatter', []))
                parts = [l for l in parts[:-1] if l not in chatter] + ['' if parts[-1] in chatter else parts[-1]]
                text = '\n'.join(parts)
            for i, l in enumerate(parts):
                if l != '':
                    stream.append(i + 1)
                if i < len(parts) - 1:
                    stream.append(0)
            nlines = len([l for l in text.split('\n') if l != ''])
            for mode, rrec in zip(('file', 'pipe', 'run'), runs[-3:]):
                rrec['stream'] = stream
                # one item per input line (notices aside): the k-th line item is line k
                line_items = [x for x in shown[mode] if '"k": "new"' not in x and '"k": "closed"' not in x and '"k": "sep"' not in x]
                rrec['delivered'] = list(range(1, len(line_items) + 1))
        path = os.path.join(tlc.OUT, 'tmp', 'c13-%d.json' % os.getpid())
        json.dump(runs, open(path, 'w'))
        try:
            res = tlc.run_tlc('TraceRunMode.tla', cfg='TraceRunMode.cfg', env={'TRACE_FILE': path}, workers=4)
        finally:
            os.unlink(path)
        rep.add_tlc(res, 'P3 TraceRunMode: lines processed = Lines(stream) and exit status = program status on %d real runs' % len(runs))
        rep.traces += len(runs)
        for d in tlc.printed_tuples(res.stdout, 'DIFF')[:6]:
            c = cases[(d[0] - 1) // 3]
            rep.violation('trace:' + d[1], 'run %d (%s mode): %s is %r, RunMode says %r' % (d[0], runs[d[0] - 1]['mode'], d[1], d[2], d[3]),
                          {'kind': 'modes', 'chunks': c['chunks'], 'status': c['status'], 'extra': c['extra'], 'delays': c['delays']})
        rep.sample({'chunks': cases[0]['chunks'][:3], 'status': cases[0]['status'], 'argv_after_-r': cases[0]['extra']})
        rep.extra['process_runs'] = 3 * len(cases)
        rep.extra['exit_statuses'] = len(set(c['status'] for c in cases))
    finally:
        shutil.rmtree(tmp, ignore_errors=True)
    rep.rule = ('P1: TLC checks RunMode (child / helper thread / reader / main as separate processes) for every chunking of four small streams '
                '(incl. a last line without newline, an empty stream) and every interleaving, with fairness for termination; P2/P3: generated '
                'streams are split into writes in several ways (whole, per line, random mid-line cuts; with and without 30 ms delays; program '
                'exiting at once or lingering) and run for real in file, pipe and run mode (real subprocesses); the three displays must be '
                'identical to each other and to the in-process line-by-line run; the program\'s argv (with option look-alikes), '
                'WAYLAND_DEBUG=1, its untouched stdout and the propagated exit status are checked; TLC validates processed lines and status '
                'against RunMode. A case is one (stream, chunking, delays, status, argv).')
    rep.assumptions = ['the reader side of the interleaving is scheduled by the kernel: the model covers all of them, the real runs sample them through writer timing',
                       'stdout is not a terminal in these runs (no colour)']
    return rep


def replay(ctx, data):
    tmp = tempfile.mkdtemp(prefix='c13r-', dir=os.path.join(tlc.OUT, 'tmp'))
    try:
        case = {'tmp': tmp, 'n': 0, 'lines': [], 'chunks': data['chunks'], 'status': data['status'], 'extra': data['extra'],
                'delays': data['delays'], 'linger': data.get('linger', 0), 'close_err': data.get('close_err', False), 'enc': data.get('enc', 'utf-8'), 'opts': data.get('opts', []), 'wdebug': data.get('wdebug'), 'orphan': data.get('orphan', 0)}
        obs = one_case(case)
        for mode in ('file', 'pipe', 'run'):
            rc, out, err = obs[mode]
            print('==', mode, 'rc', rc)
            items, child = items_of(out)
            got = norm([key_of(i) for i in items])
            want = data.get('want', got)
            for i in range(max(len(got), len(want))):
                a = got[i] if i < len(got) else None
                b = want[i] if i < len(want) else None
                if a != b:
                    print('  item %d differs:\n     shown: %s\n     line-by-line: %s' % (i, a, b))
                    break
            print(out[-1200:] if data.get('verbose') else '')
            print(err[-300:])
    finally:
        shutil.rmtree(tmp, ignore_errors=True)
    return True
