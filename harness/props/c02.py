"""C02 - every object mention is attributed to the right incarnation of its id."""
import random
import framework, sessionprop, mcreplay, gen
from props.common import relevant

LEVEL = 'model_checking'


def churn_session(r, cycles, server_side=False, srv=False, back=False):
    """one id re-used `cycles` times (beyond 26: labels aa, ab, ...), with mentions between; with `back` the log's clock
    sometimes steps back (an object may then be destroyed at an earlier log time than it was created)"""
    ev = []
    t = r.choice([0, 770203519])
    def msg(ty, i, name, sent, args):
        nonlocal t
        t += r.choice([1, 50, 3000])
        if back and r.random() < 0.25:
            t = max(0, t - r.choice([60, 4000, 2000000]))
        ev.append({'in': {'e': 'msg', 'tag': '', 't': t, 'm': {'ttype': ty, 'tid': i, 'name': name, 'sent': sent, 'args': args}}})
    cs = server_side
    msg('wl_display', 1, 'get_registry', not cs, [{'k': 'new', 'type': 'wl_registry', 'id': 2}])
    msg('wl_registry', 2, 'bind', not cs, [{'k': 'int', 'v': 1}, {'k': 'str', 's': 'wl_compositor'}, {'k': 'int', 'v': 4}, {'k': 'new', 'type': '', 'id': 3}])
    msg('wl_compositor', 3, 'create_surface', not cs, [{'k': 'new', 'type': 'wl_surface', 'id': 4}])
    if srv:
        msg('wl_registry', 2, 'bind', not cs, [{'k': 'int', 'v': 2}, {'k': 'str', 's': 'wl_data_device'}, {'k': 'int', 'v': 3}, {'k': 'new', 'type': '', 'id': 6}])
    for c in range(cycles):
        if srv:
            i = gen.SRV0 + r.choice([0, 0, 1])
            msg('wl_data_device', 6, 'data_offer', cs, [{'k': 'new', 'type': 'wl_data_offer', 'id': i}])
            if r.random() < 0.5:
                msg('wl_data_device', 6, 'selection', cs, [{'k': 'obj', 'type': 'wl_data_offer', 'id': i}])
            if r.random() < 0.3:
                msg('wl_data_offer', i, 'finish', not cs, [])
            if r.random() < 0.3:
                # a destructor request is a message like any other: the object lives until its id is handed out again
                msg('wl_data_offer', i, 'destroy', not cs, [])
                if r.random() < 0.5:
                    msg('wl_data_offer', i, 'finish', not cs, [])
        else:
            msg('wl_surface', 4, 'frame', not cs, [{'k': 'new', 'type': 'wl_callback', 'id': 5}])
            if r.random() < 0.4:
                msg('wl_callback', 5, 'done', cs, [{'k': 'int', 'v': c}])
            msg('wl_display', 1, 'delete_id', cs, [{'k': 'int', 'v': 5}])
            if r.random() < 0.2:
                msg('wl_callback', 5, 'done', cs, [{'k': 'int', 'v': c}])     # mention after destruction
    ev.append({'in': {'e': 'eof'}})
    return {'init': {'show': True, 'hasf': False, 'hasb': False}, 'events': ev}


def sessions(ctx, rep, cfg):
    # P2: behaviours of the bounded model, both dialects
    seqs, r = mcreplay.behaviours(rep, 'MC_Session.tla', cfg, 'well-formed histories of one connection', override={'MaxLen': 6})
    rnd = ctx.rnd
    keep = ctx.pick(1200, 20000)
    if len(seqs) > keep:
        seqs = rnd.sample(seqs, keep)
    rep.extra['model_behaviours_replayed'] = len(seqs)
    for k, s in enumerate(seqs):
        dialect = 'new' if k % 2 else 'old'
        yield ({'init': {'show': True, 'hasf': False, 'hasb': False}, 'events': [{'in': e} for e in s]},
               {'dialect': dialect, 'offset': rnd.choice([0, 770203519])}, 'model')
    # P3: random well-formed histories far beyond the model's bounds
    n = ctx.pick(150, 1500)
    for k in range(n):
        g = gen.SessionGen(ctx.seed * 7919 + k, nconn=(1, 2), nmsg=(20, 60), junk=0.05, core=None)
        yield g.session(), {'dialect': rnd.choice(['old', 'new']), 'mark': rnd.choice(['.', ','])}, 'random'
    from props import sessbase
    yield from sessbase.rich_sessions(ctx, 1000003, ctx.pick(40, 400))
    for k in range(ctx.pick(6, 40)):
        r2 = random.Random(ctx.seed * 31 + k)
        yield (churn_session(r2, r2.choice([30, 60, 120] if ctx.quick else [30, 120, 750]), server_side=k % 2 == 1, srv=k % 3 == 2, back=k % 4 == 1),
               {'dialect': 'new' if k % 2 else 'old'}, 'churn')


def run(ctx):
    rep = framework.Report(ctx, LEVEL)
    rep.rule = ('P1: TLC checks the C02 invariants over all well-formed one-connection histories of the bounded model; '
                'P2: its maximal behaviours are replayed as log lines through the real tool (both dialects); '
                'P3: random well-formed histories (all shipped interfaces, id reuse, > 26 incarnations) are run through the tool; '
                'every recorded trace is validated by TLC against Session!Step. A case is one distinct input history.')
    cfg = ctx.pick('MC_Session_tables.cfg', 'MC_Session_tables_deep.cfg')
    mcreplay.model_check(rep, 'MC_Session.tla', cfg, 'C02/C03 invariants')
    sessionprop.run_sessions(ctx, rep, sessions(ctx, rep, cfg), relevant('C02'))
    # the same bookkeeping reached through GDB mode: the plugin hands over closures, and a message the program *sends* names its
    # target by id only (no interface) - attribution then rests on the table alone
    from props import gdbbase

    def gdb_sessions():
        for k in range(ctx.pick(60, 600)):
            yield (gdbbase.gdb_session(ctx.seed * 1000211 + k, ctx.rnd.randint(20, 60), cmd_rate=0.0, destroy_rate=0.02, init_break=0.0),
                   {'dialect': 'new'}, 'gdb-mode')
    sessionprop.run_sessions(ctx, rep, gdb_sessions(), relevant('C02'), runner=gdbbase.runner, spec=gdbbase.SPEC, label='GDB mode')
    rep.assumptions = ['the printer model (harness/printer.py) renders lines as libwayland does',
                       'TLC, the JSON bridge and the projection/lexer code are trusted']
    # ... and as a real process (file / run mode), compared with the in-process run
    from props import sessbase as _sb
    _sb.process_batch(ctx, rep, ['msg'], ctx.pick(10, 100), 1000451, cmds_after=2)
    return rep


def replay(ctx, data):
    return sessionprop.replay_session(ctx, data, relevant('C02'))
