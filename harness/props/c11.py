"""C11 - `list` returns exactly the recorded messages that match, with honest counts."""
import gen, sessionprop
from props import sessbase
from props.common import relevant


def sessions(ctx):
    def it(rep):
        yield from sessbase.model_sessions(ctx, rep, 'MC_Session_list.cfg', 'list queries (matchers, caps, selection) over recorded histories',
                                           ctx.pick(1200, 12000))
        for k in range(ctx.pick(200, 2000)):
            g = gen.SessionGen(ctx.seed * 67867967 + k, nconn=(1, 3), nmsg=(10, 40), junk=0.02, cmds=0.5, core=True, unresolved=0.08,
                               matcher_depth=k % 3)
            yield g.session(), {'dialect': ctx.rnd.choice(['old', 'new'])}, 'random-list'
        yield from sessbase.rich_sessions(ctx, 1000039, ctx.pick(40, 400), cmds=0.5)
    return it


def run(ctx):
    rep = sessbase.run_property(ctx, 'C11',
        'P1: TLC checks ListIsReadOnly / CommandsDoNotRewrite over all behaviours with list queries (matcher, cap absent/0/1/2, '
        'current filter, selected connection) at every point; P2: replayed through the tool; P3: random sessions dense in list '
        'commands (caps beyond the number of matches, repeated queries, malformed matchers and caps). Listed messages (identity '
        'and order), the three counts and the state before/after are compared with Session!ListResult by TLC.',
        [('MC_Session_list.cfg', 'C11 list')], sessions(ctx))
    # the same through GDB mode (`wl ...` commands typed while the program is halted, messages arriving as closures)
    from props import gdbbase
    gdbbase.gdb_batch(ctx, rep, relevant('C11'), ctx.pick(40, 400), 1000333)
    # ... and as a real process in file mode
    sessbase.process_batch(ctx, rep, ['msg', 'counts', 'none', 'info', 'error'], ctx.pick(12, 120), 1000409)
    return rep


def replay(ctx, data):
    return sessionprop.replay_session(ctx, data, relevant('C11'))
