"""C14 - displayed object and connection labels are unambiguous and work as matchers."""
import copy, json, os, random
import framework, tlc, e1, gen, mrender, sessionprop
from props import sessbase, c02
from props.common import relevant

LEVEL = 'model_checking'


def letter_table(ctx, rep):
    m = e1.mods()
    try:
        from core.letter_id_generator import number_to_letter_id, letter_id_to_number, LetterIdGenerator
    except Exception as e:
        raise tlc.MachineryError('cannot import the letter functions: %r' % e)
    top = ctx.pick(20000, 475253)          # through three letters / through four letters
    ns = list(range(top + 1))
    r = ctx.rnd
    ns += sorted(set(r.randint(top, 2 ** 31 - 2) for _ in range(ctx.pick(1500, 10000)))) + [2 ** 31 - 2, 12356629, 12356630, 321272405, 321272406]
    tab = []
    for n in ns:
        row = {'n': n}
        try:
            lo, up = number_to_letter_id(n, False), number_to_letter_id(n, True)
            row.update(lower=list(lo), upper=list(up), back=letter_id_to_number(lo), backu=letter_id_to_number(up))
        except Exception as e:
            rep.violation('letters-exception', 'letter functions raise for %d: %r' % (n, e), {'kind': 'letters', 'n': n})
            row.update(lower=['?'], upper=['?'], back=-1, backu=-1)
        tab.append(row)
        rep.case(n)
    # far beyond 32 bits (TLC's integers end there): the same two functions against an independent implementation of the
    # numbering (mrender.letters, itself compared with LetterId by TLC through the rows above) and back
    big = [2 ** 31, 2 ** 40, 2 ** 53 - 1, 2 ** 53, 2 ** 53 + 1, 26 ** 12 - 1, 26 ** 12, 99246114928149461, 10 ** 18, 26 ** 13 + 12345]
    big += [r.randint(2 ** 31, 10 ** 18) for _ in range(ctx.pick(300, 3000))]
    for n in big:
        rep.case('big:%d' % n)
        try:
            lo = number_to_letter_id(n, False)
            back = letter_id_to_number(lo)
        except Exception as e:
            rep.violation('letters-exception', 'letter functions raise for %d: %r' % (n, e), {'kind': 'letters', 'n': n})
            continue
        if lo != mrender.letters(n) or back != n or number_to_letter_id(n, True) != mrender.letters(n).upper():
            rep.violation('letters-differ:big', 'position %d is written %r (expected %r) and converts back to %d' % (n, lo, mrender.letters(n), back),
                          {'kind': 'letters', 'n': n})
            break
    # the generator used for connection names hands out 0, 1, 2, ... in order
    g = LetterIdGenerator()
    names = [g.next() for _ in range(min(top, 60000))]
    for i, nm in enumerate(names):
        if list(nm) != tab[i]['upper']:
            rep.violation('name-generator', 'the %d-th generated connection name is %r' % (i, nm), {'kind': 'letters', 'n': i})
            break
    # ... and so do the connections of one session: the k-th connection opened is called ToCaps(k), however many there are
    # (the table rows are what TLC compares with LetterId!ToCaps below)
    S = e1.Session()
    ncon = ctx.pick(3000, 60000)
    seen = {}
    for i in range(ncon):
        S.cm.open_connection(float(i), 'conn-%d' % i, None if i % 3 else bool(i % 2))
    for i, c in enumerate(S.cm.connections()):
        nm = c.name()
        if list(nm) != tab[i]['upper'] or nm in seen:
            rep.violation('connection-name', 'the %d-th connection of a session is called %r%s' % (i, nm, ' as is the %d-th' % seen[nm] if nm in seen else ''),
                          {'kind': 'letters', 'n': i})
            break
        seen[nm] = i
    rep.extra['connections_named_in_one_session'] = ncon
    path = os.path.join(tlc.OUT, 'tmp', 'c14-%d.json' % os.getpid())
    json.dump(tab, open(path, 'w'))
    try:
        res = tlc.run_tlc('TraceLetterId.tla', cfg='TraceLetterId.cfg', env={'TRACE_FILE': path}, workers=16, timeout=3000)
    finally:
        os.unlink(path)
    rep.add_tlc(res, 'P4 number_to_letter_id / letter_id_to_number = LetterId!ToLetters / FromLetters on 0..%d and %d samples up to 2^31' % (top, len(ns) - top - 1))
    rep.traces += len(tab)
    rep.sample({'n': 702, 'tool_label': ''.join(tab[702]['lower']), 'tool_back': tab[702]['back']})
    for d in tlc.printed_tuples(res.stdout, 'DIFF')[:5]:
        rep.violation('letters-differ', 'position %d: the tool says %r (back: %d), LetterId says %r' % (d[0], ''.join(d[1]), d[3], ''.join(d[2])),
                      {'kind': 'letters', 'n': d[0]})


def label_queries(trace, gens, r, n):
    """after the session: `list <CONN>: <label>` and `list <CONN>:` for objects / connections of the session"""
    order = []
    for e in trace['events']:
        if e['in']['e'] == 'msg' and e['in']['tag'] not in order:
            order.append(e['in']['tag'])
    evs = []
    used = []
    for _ in range(n):
        tag = r.choice(order)
        cname = mrender.letters(order.index(tag)).upper()
        cg = gens[tag]
        if r.random() < 0.25:
            ast = mrender.pat_bare(conn=mrender.W(cname))
        else:
            i = r.choice(list(cg.objs))
            o = r.choice(cg.objs[i])
            ast = mrender.pat_bare({'k': 'idgen', 'id': o.id, 'gen': o.gen}, mrender.W(cname))
        spell = [r.choice(['', ' ']), '', []]
        if used and r.random() < 0.3:
            ast, spell = copy.deepcopy(r.choice(used))        # a label that was used before, as it was written then
        else:
            used.append((ast, spell))
        c = r.random()
        if c < 0.2:
            # the label given to `filter` / `breakpoint` (sometimes after another matcher, so that it joins something): what the
            # filter then selects is observed on the recorded messages, and the label is asked for again later
            which = r.choice(['filter', 'break'])
            if r.random() < 0.5:
                evs.append({'in': {'e': 'cmd', 'c': which, 'hasarg': True, 'ok': True, 'spell': ['', '', []],
                                   'ast': mrender.pat_bare({'k': 'type', 't': mrender.W(r.choice(['wl_surface', 'wl_callback', 'wl_registry']))})}})
            evs.append({'in': {'e': 'cmd', 'c': which, 'hasarg': True, 'ok': True, 'ast': ast, 'spell': spell}})
            if r.random() < 0.5:
                evs.append({'in': {'e': 'cmd', 'c': which, 'hasarg': True, 'ok': True, 'ast': mrender.BANG, 'spell': ['', '', []]}})
        evs.append({'in': {'e': 'cmd', 'c': 'list', 'hasm': True, 'ok': True, 'ast': copy.deepcopy(ast), 'cap': -1, 'caperr': False,
                           'spell': spell}})
    return evs


class LabelSessionGen(gen.SessionGen):
    def session(self):
        # same as SessionGen.session, but keeps the per-connection bookkeeping for the label queries
        r, o = self.r, self.opt
        nconn = r.randint(*o['nconn'])
        tags = [str(k + 1) for k in range(nconn)]
        pool = [i for i in gen.CORE_IFACES if i in self.proto]
        conns = [gen.ConnGen(r, tg, r.random() < 0.3, self.proto, self.kinds, self.amb, pool) for tg in tags]
        for c in conns:
            c.next_client = 2
            c.unres = 0.05          # some messages about objects the log never saw being created (shown without a connection label)
        t = r.choice([0, 770203519])
        events = []
        for k in range(r.randint(*o['nmsg'])):
            t += r.choice(gen.GAPS)
            c = r.choice(conns)
            events.append({'in': c.next(t)})
        events.append({'in': {'e': 'eof'}})
        tr = {'init': dict(sessbase.NOFILTER), 'events': events}
        tr['events'] += label_queries(tr, {c.tag: c for c in conns}, r, o['queries'])
        return tr


def many_connections(seed, n):
    """more than 26 connections: names Z, AA, AB, ..."""
    r = random.Random(seed)
    evs = []
    t = 0
    for k in range(n):
        t += 1000
        evs.append({'in': {'e': 'msg', 'tag': 'c%d' % k, 't': t, 'm': {'ttype': 'wl_display', 'tid': 1, 'name': 'sync', 'sent': True,
                                                                   'args': [{'k': 'new', 'type': 'wl_callback', 'id': 2}]}}})
    evs.append({'in': {'e': 'eof'}})
    for k in r.sample(range(n), 6):
        evs.append({'in': {'e': 'cmd', 'c': 'list', 'hasm': True, 'ok': True, 'cap': -1, 'caperr': False, 'spell': ['', '', []],
                           'ast': mrender.pat_bare(conn=mrender.W(mrender.letters(k).upper()))}})
        evs.append({'in': {'e': 'cmd', 'c': 'conn', 'arg': mrender.letters(k).upper()}})
    return {'init': dict(sessbase.NOFILTER), 'events': evs}


def sessions(ctx):
    for k in range(ctx.pick(120, 1000)):
        g = LabelSessionGen(ctx.seed * 433494437 + k, nconn=(1, 3), nmsg=(15, 45))
        g.opt['queries'] = ctx.pick(12, 25)
        yield g.session(), {'dialect': ctx.rnd.choice(['old', 'new'])}, 'labels-as-matchers'
    for k in range(ctx.pick(4, 20)):
        r2 = random.Random(ctx.seed * 41 + k)
        s = c02.churn_session(r2, r2.choice([30, 60]), srv=k % 2 == 1)
        # queries for late incarnations (labels beyond z)
        for g_ in (0, 25, 26, 27, 29):
            s['events'].append({'in': {'e': 'cmd', 'c': 'list', 'hasm': True, 'ok': True, 'cap': -1, 'caperr': False, 'spell': ['', '', []],
                                       'ast': mrender.pat_bare({'k': 'idgen', 'id': gen.SRV0 if k % 2 == 1 else 5, 'gen': g_}, mrender.W('A'))}})
        yield s, {'dialect': 'new'}, 'churn-labels'
    # connections that come and go (the connection-id interface as GDB mode uses it): a name is never handed out twice
    from props import c04
    for k in range(ctx.pick(120, 1000)):
        yield c04.iface_session(ctx.seed * 49999 + k, ctx.rnd.randint(8, 40)), {'dialect': 'new'}, 'open-close-reopen'
    for k in range(ctx.pick(2, 6)):
        yield many_connections(ctx.seed + k, ctx.rnd.choice([30, 60, 710])), {'dialect': 'new'}, 'many-connections'


def run(ctx):
    rep = framework.Report(ctx, LEVEL)
    r = tlc.run_tlc('MC_LetterId.tla', cfg=ctx.pick('MC_LetterId_quick.cfg', 'MC_LetterId.cfg'), workers=16)
    if r.violated:
        raise tlc.MachineryError('LetterId violates %s' % r.violated)
    rep.add_tlc(r, 'P1 LetterId: RoundTrip / Increasing (shortlex, hence no repeats) / NoGaps / OnlyLetters for every position')
    letter_table(ctx, rep)
    sessionprop.run_sessions(ctx, rep, sessions(ctx), relevant('C14'))
    rep.rule = ('P1: TLC checks on LetterId that labels are strictly increasing in shortlex order with no gaps and convert back, for every '
                'position through three letters; P4: the tool\'s two functions are tabulated (every position through three / four letters, '
                'samples up to 2^31) and TLC compares each entry with LetterId; P3: sessions in which labels known from the generator\'s own '
                'bookkeeping (`B: 7c`, `B:`; incarnations beyond z; more than 26 / 702 connections) are typed back as `list` matchers; TLC '
                'checks that the printed labels are the expected ones and that exactly the messages on / mentioning / creating / '
                'destroying that object (resp. of that connection) are listed. A case is one position or one session.')
    rep.assumptions = list(sessbase.ASSUME)
    # ... and as a real process (file / run mode), compared with the in-process run
    from props import sessbase as _sb
    _sb.process_batch(ctx, rep, ['msg', 'counts', 'none', 'new', 'closed'], ctx.pick(10, 100), 1000459)
    return rep


def replay(ctx, data):
    if data['kind'] == 'letters':
        from core.letter_id_generator import number_to_letter_id
        print(data['n'], '->', number_to_letter_id(data['n'], False))
        return True
    return sessionprop.replay_session(ctx, data, relevant('C14'))
