"""E3-lite: the real GDB plugin (backends/gdb_plugin/plugin.py) stepped in-process against a stand-in `gdb` module.

Events (spec/GdbSession.tla): hit (a closure on a libwayland connection, from a thread), destroy (wl_connection_destroy),
invoke (a user command).  For each event the driver records what the plugin printed, what the breakpoint's stop() would
return to GDB (halt), which GDB command the plugin executed, and the usual projections of the session.
"""
import os, sys
HERE = os.path.dirname(os.path.abspath(__file__))
sys.path.insert(0, os.path.join(HERE, 'gdbstub'))
import e1, printer                      # noqa: E402
from tlc import MachineryError           # noqa: E402

_plugin_mod = None


def plugin_mod():
    global _plugin_mod
    if _plugin_mod is None:
        e1.mods()
        try:
            import gdb                  # the stand-in
            from backends.gdb_plugin import plugin
        except Exception as e:
            raise MachineryError('cannot import the GDB plugin against the stand-in gdb module: %r' % e)
        _plugin_mod = (gdb, plugin)
    return _plugin_mod


def run(trace, render=None):
    """run_unguarded under e1's resource guard"""
    return e1.guarded(run_unguarded, trace, render)


def run_unguarded(trace, render=None):
    gdb, plugin = plugin_mod()
    m = e1.mods()
    render = dict(render or {'dialect': 'new'})
    init = trace['init']
    import mrender
    S = e1.Session(show=init.get('show', True), f_text=mrender.r_top(init['f']) if init.get('hasf') else None,
                   b_text=mrender.r_top(init['b']) if init.get('hasb') else None)
    gdb.calls[:] = []
    gdb.breakpoint_objects[:] = []
    gdb.command_objects[:] = []
    P = plugin.Plugin(S.output, S.cm, S.ctl, S.ctl)
    bps = dict()
    for spec, obj in gdb.breakpoint_objects:
        bps[spec] = obj
    cmds = dict(gdb.command_objects)
    need = ['wl_connection_destroy', 'wl_closure_invoke', 'wl_closure_dispatch', 'serialize_closure']
    if any(n not in bps for n in need) or 'wl' not in cmds:
        raise MachineryError('the plugin no longer installs the breakpoints / commands the harness drives: %s / %s' % (sorted(bps), sorted(cmds)))

    def addr_int(tag):
        import re as _re
        mm = _re.search(r'0x([0-9a-fA-F]+)', tag)
        return int(mm.group(1), 16) if mm else 0xdead0000 + (sum(ord(ch) for ch in tag) % 4096)
    nhit = [0]
    for evrec in trace['events']:
        ev = evrec['in']
        nh = len(S.hist())
        obs = {'raised': False}
        gdb.calls[:] = []
        try:
            if ev['e'] == 'hit':
                gdb.thread_num = ev['thread']
                cid, msg = m.parse.message(printer.line({'tag': '', 't': ev['t'], 'm': ev['m']}, **render))
                if msg.sent:
                    # as extract.sent_message() delivers it: the sender of an outgoing closure is known by its id only
                    msg.obj = m.wl.UnresolvedObject(msg.obj.id, None)
                    ev['m'] = dict(ev['m'], ttype='')
                # through the breakpoint object GDB would call: its stop() decides whether the program halts
                nhit[0] += 1
                bp = bps['serialize_closure'] if msg.sent else bps[['wl_closure_invoke', 'wl_closure_dispatch'][nhit[0] % 2]]
                conn_id = 'gdb_conn:' + hex(addr_int(ev['addr']))
                bp.message_extractor = lambda conn_id=conn_id, msg=msg: (conn_id, msg)
                obs['halt'] = bool(bp.stop())
            elif ev['e'] == 'exit':
                # the debugged program exits: whatever the plugin has connected to gdb.events.exited is called
                gdb.fire('exited', exit_code=0)
                obs['halt'] = False
            elif ev['e'] == 'destroy':
                gdb.frame_vars['connection'] = addr_int(ev['addr'])
                obs['halt'] = bool(bps['wl_connection_destroy'].stop())
            elif ev['e'] == 'invoke':
                text = e1.command_text(ev['cmd'])
                first = text.split(' ', 1)[0]
                sub = [n for n in cmds if n.startswith('wl') and n not in ('wl', 'wayland') and first and n[2:].startswith(first)]
                if len(sub) == 1 and nhit[0] % 2:
                    cmds[sub[0]].invoke(text[len(first):].strip(), False)      # `wlfilter x`
                else:
                    cmds[['wl', 'w', 'wayland'][nhit[0] % 3]].invoke(text, False)   # `wl filter x`
                obs['exec'] = 'quit' if 'quit' in gdb.calls else ('continue' if 'continue' in gdb.calls else 'none')
                obs['halt'] = obs['exec'] == 'none' and bool(P.paused())
            else:
                raise MachineryError('unknown GDB event ' + ev['e'])
        except MachineryError:
            raise
        except BaseException as e:           # an exception escaping stop() / invoke(): GDB prints it and halts
            import traceback
            obs['raised'] = True
            obs['exception'] = traceback.format_exc()[-600:]
            obs.setdefault('halt', True)
            if ev['e'] == 'invoke':
                obs.setdefault('exec', 'none')
        obs.update(items=S.items(), conns=S.conns(), nh=len(S.hist()), sel=S.sel())
        if ev['e'] == 'hit':
            if len(S.hist()) == nh + 1:
                obs['rec'] = e1.proj_msg(m, S.hist()[-1])
        if ev['e'] == 'invoke' and ev['cmd']['c'] in ('filter', 'break'):
            obs['fsel'] = S.fsel()
            obs['bsel'] = S.bsel()
        evrec['obs'] = obs
    return trace
