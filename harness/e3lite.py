"""E3-lite: the real GDB plugin (backends/gdb_plugin/plugin.py) stepped in-process against a stand-in `gdb` module.

Events (spec/GdbSession.tla): hit (a closure on a libwayland connection, from a thread), destroy (wl_connection_destroy),
invoke (a user command).  For each event the driver records what the plugin printed, what the breakpoint's stop() would
return to GDB (halt), which GDB command the plugin executed, and the usual projections of the session.
"""
import os, sys
HERE = os.path.dirname(os.path.abspath(__file__))
sys.path.insert(0, os.path.join(HERE, 'gdbstub'))
import e1, printer                      # noqa: E402
from tlc import MachineryError           # noqa: E402

_plugin_mod = None


def plugin_mod():
    global _plugin_mod
    if _plugin_mod is None:
        e1.mods()
        try:
            import gdb                  # the stand-in
            from backends.gdb_plugin import plugin
        except Exception as e:
            raise MachineryError('cannot import the GDB plugin against the stand-in gdb module: %r' % e)
        _plugin_mod = (gdb, plugin)
    return _plugin_mod


def run(trace, render=None):
    gdb, plugin = plugin_mod()
    m = e1.mods()
    render = dict(render or {'dialect': 'new'})
    init = trace['init']
    import mrender
    S = e1.Session(show=init.get('show', True), f_text=mrender.r_top(init['f']) if init.get('hasf') else None,
                   b_text=mrender.r_top(init['b']) if init.get('hasb') else None)
    gdb.calls[:] = []
    P = plugin.Plugin(S.output, S.cm, S.ctl, S.ctl)
    for evrec in trace['events']:
        ev = evrec['in']
        nh = len(S.hist())
        obs = {'raised': False}
        gdb.calls[:] = []
        try:
            if ev['e'] == 'hit':
                gdb.thread_num = ev['thread']
                cid, msg = m.parse.message(printer.line({'tag': '', 't': ev['t'], 'm': ev['m']}, **render))
                P.process_message(ev['addr'], msg)
                obs['halt'] = bool(P.paused())
            elif ev['e'] == 'destroy':
                P.close_connection(ev['addr'])
                obs['halt'] = False          # WlConnectionDestroyBreakpoint.stop() returns False
            elif ev['e'] == 'invoke':
                P.invoke_command(e1.command_text(ev['cmd']))
                obs['exec'] = 'quit' if 'quit' in gdb.calls else ('continue' if 'continue' in gdb.calls else 'none')
                obs['halt'] = obs['exec'] == 'none' and bool(P.paused())
            else:
                raise MachineryError('unknown GDB event ' + ev['e'])
        except MachineryError:
            raise
        except BaseException as e:           # an exception escaping stop() / invoke(): GDB prints it and halts
            import traceback
            obs['raised'] = True
            obs['exception'] = traceback.format_exc()[-600:]
            obs.setdefault('halt', True)
            if ev['e'] == 'invoke':
                obs.setdefault('exec', 'none')
        obs.update(items=S.items(), conns=S.conns(), nh=len(S.hist()), sel=S.sel())
        if ev['e'] == 'hit':
            if len(S.hist()) == nh + 1:
                obs['rec'] = e1.proj_msg(m, S.hist()[-1])
        if ev['e'] == 'invoke' and ev['cmd']['c'] in ('filter', 'break'):
            obs['fsel'] = S.fsel()
            obs['bsel'] = S.bsel()
        evrec['obs'] = obs
    return trace
