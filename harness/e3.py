"""E3: the real plugin inside the real gdb, on the mock libwayland (harness/mockwl.c).

run_scenario(ops) starts gdb exactly as backends/gdb_plugin/runner.py does
(`gdb -ex 'python import sys; sys.argv = [...]; exec(open(".../main.py").read())' ...`), lets the inferior execute
the scenario and returns, per scenario line, what the plugin printed while that operation was executed.
"""
import os, re, subprocess, tempfile
import lexer, tlc
from tlc import MachineryError

REPO = os.environ.get('VERIF_REPO', '/repo')
VERIF = os.path.dirname(os.path.dirname(os.path.abspath(__file__)))
MOCKWL = os.path.join(VERIF, 'out', 'bin', 'mockwl')
SRC = os.path.join(VERIF, 'harness', 'mockwl.c')


def ensure_mockwl():
    if not os.path.exists(MOCKWL) or os.path.getmtime(MOCKWL) < os.path.getmtime(SRC):
        os.makedirs(os.path.dirname(MOCKWL), exist_ok=True)
        p = subprocess.run(['gcc', '-g', '-O0', '-pthread', '-o', MOCKWL, SRC], stdout=subprocess.PIPE, stderr=subprocess.STDOUT)
        if p.returncode != 0:
            raise MachineryError('cannot compile mockwl: ' + p.stdout.decode()[-500:])


def run_scenario(lines, argv=('-C',), commands=None, timeout=300, ncontinue=None):
    """lines: scenario text lines; returns {line number: [output chunks]}, raw output"""
    ensure_mockwl()
    tmp = tempfile.mkdtemp(prefix='e3-', dir=os.path.join(tlc.OUT, 'tmp'))
    try:
        sc = os.path.join(tmp, 'scenario.txt')
        with open(sc, 'w') as f:
            f.write('\n'.join(lines) + '\n')
        cmds = os.path.join(tmp, 'cmds.gdb')
        marker = ('break mock_marker\ncommands\nsilent\n'
                  'python gdb.write("@@ %d\\n" % int(gdb.parse_and_eval("line")), gdb.STDERR)\ncontinue\nend\n')
        with open(cmds, 'w') as f:
            f.write(marker)
            if commands is not None:
                f.write('\n'.join(commands) + '\n')
            else:
                f.write('run\n' + 'continue\n' * (ncontinue if ncontinue is not None else 50))
        main = os.path.join(REPO, 'main.py')
        py = 'python import sys; sys.argv = [' + ', '.join('"%s"' % a for a in (main,) + tuple(argv)) + ']; exec(open("' + main + '").read())'
        env = dict(os.environ, PYTHONPATH=REPO, LANG='C.UTF-8', LC_ALL='C.UTF-8')
        try:
            p = subprocess.run(['gdb', '-q', '-batch', '-ex', 'set confirm off', '-ex', 'set pagination off', '-ex', py, '-x', cmds, '--args', MOCKWL, sc],
                               cwd=tmp, env=env, stdout=subprocess.PIPE, stderr=subprocess.STDOUT, timeout=timeout)
        except subprocess.TimeoutExpired:
            raise MachineryError('gdb did not finish the scenario within %ss' % timeout)
        out = p.stdout.decode('utf-8', 'replace')
    finally:
        import shutil
        shutil.rmtree(tmp, ignore_errors=True)
    if '@@ ' not in out:
        raise MachineryError('gdb did not run the mock libwayland: ' + out[-800:])
    segs = {}
    cur = None
    for ln in out.split('\n'):
        m = re.match(r'@@ (-?\d+)$', ln)
        if m:
            cur = 'end' if m.group(1) == '-1' else int(m.group(1))
            segs[cur] = []
        elif cur is not None:
            segs[cur].append(ln)
    return segs, out


NOISE = re.compile(r'^(ERROR:|WARNING:|\[New Thread|\[Thread |\[Inferior|Using host|\[Switching|Thread \d+ "|$|Breakpoint|\d+\t|#\d|warning:)')


def interesting(seg_lines):
    """the plugin's own lines of a segment (gdb's chatter and the tool's logging removed)"""
    return [l for l in seg_lines if not NOISE.match(l)]


def message_of(seg_lines):
    """the one message line the plugin printed for a closure -> lexed item (or None), plus the other lines"""
    msg, other = None, []
    for l in interesting(seg_lines):
        it = lexer.lex_out(l)
        if it['k'] == 'msg' and msg is None:
            msg = it
        else:
            other.append(l)
    return msg, other
