"""GDB-mode sessions in the real gdb: abstract hit / destroy events (spec/GdbSession.tla) are turned into closures and
connection destructions of the mock libwayland, executed under the real plugin in the real gdb, and what the plugin
printed for each event is recorded for TraceGdb."""
import e3, lexer
from tlc import MachineryError


def closure_of(m, kind, k):
    """abstract message (Session event format) -> closure (props/c09 format)"""
    sig, types, args = [], [], []
    for a in m['args']:
        t = a['k']
        ty = ''
        if t == 'int':
            if a['v'] < 0:
                sig.append('i')
            else:
                sig.append('u')
            args.append({'v': str(a['v'])})
        elif t == 'float':
            sig.append('f')
            args.append({'raw': a['raw']})
        elif t == 'str':
            sig.append('s')
            args.append({'null': False, 's': a['s']})
        elif t == 'fd':
            sig.append('h')
            args.append({'v': str(a['v'])})
        elif t == 'array':
            sig.append('a')
            args.append({'vals': [str(i) for i in range(a.get('n', 0) // 4)], 'extra': a.get('n', 0) % 4})
        elif t == 'nil':
            sig += ['?', 'o']
            ty = a.get('decl', a.get('type', ''))
            args.append({'null': True, 'id': '0', 'otype': ty or 'wl_display'})
        elif t == 'obj':
            sig.append('o')
            ty = a['type']
            args.append({'null': False, 'id': str(a['id'] & 0xffffffff), 'otype': a['type']})
        elif t == 'new':
            sig.append('n')
            ty = a['type']
            args.append({'id': str(a['id'] & 0xffffffff)})
        else:
            raise MachineryError('cannot put a %s argument into a closure' % t)
        types.append(ty)
    return {'name': m['name'], 'sig': sig, 'types': types, 'sender': str(m['tid'] & 0xffffffff), 'kind': kind,
            'ttype': m['ttype'] or 'wl_display', 'args': args}


def run(trace, slots=None):
    """fills in obs for hit / destroy events; threads: event['thread'] == 1 is the main thread, anything else a new thread
    (gdb numbers threads in order of creation: the event's thread number is rewritten to the one gdb will use)"""
    events = trace['events']
    ifaces = []

    def iface(n):
        if n not in ifaces:
            ifaces.append(n)
        return ifaces.index(n)
    slots = {} if slots is None else slots
    roles = {}
    owners, free_owners = {}, []     # the wl_display / wl_client struct of each live connection; a freed one is handed out again first
    ops = []        # (event index, scenario text without the leading M/C numbering)
    msgs = []
    nthreads = 1
    for i, e in enumerate(events):
        ev = e['in']
        if ev['e'] == 'hit':
            slot = slots.setdefault(ev['addr'], len(slots))
            if slot > 7:
                raise MachineryError('the mock libwayland has 8 connection slots')
            first = ev['addr'] not in roles
            m = ev['m']
            if first:
                # which side of the connection the program is on: decided by the scenario, visible to the plugin through the call path
                roles[ev['addr']] = ev.get('side', 'client')
                owners[ev['addr']] = free_owners.pop(0) if free_owners else len(owners) + len(free_owners)
                if owners[ev['addr']] > 7:
                    raise MachineryError('the mock libwayland has 8 owner slots')
            server = roles[ev['addr']] == 'server'
            kind = (3 if (len(ops) % 2) else 4) if m['sent'] else ((1 if len(ops) % 2 else 2) if server else 0)
            c = closure_of(m, kind, i)
            thread = 0
            if ev.get('thread', 1) != 1:
                nthreads += 1
                ev['thread'] = nthreads
                thread = 1
            else:
                ev['thread'] = 1
            codes = [x for x in c['sig'] if x in 'iufsonah']
            toks = []
            for code, a, ty in zip(codes, c['args'], c['types']):
                if code in 'iuh':
                    toks.append(a['v'])
                elif code == 'f':
                    toks.append(str(a['raw']))
                elif code == 's':
                    toks.append('=' + a['s'].encode('utf-8').hex())
                elif code == 'o':
                    toks.append('-' if a['null'] else '%d:%s' % (iface(a['otype']), a['id']))
                elif code == 'n':
                    toks.append('%d:%s' % (iface(ty or 'wl_display'), a['id']) if kind == 0 else a['id'])
                elif code == 'a':
                    toks.append('%d:%s' % (len(a['vals']), ','.join(a['vals'])))
            msgs.append('M %s %s %d %s' % (c['name'], ''.join(c['sig']) or '-', len(codes), ' '.join(str(iface(t)) if t else '-1' for t in c['types'])))
            ops.append((i, 'C %d %d/%d %d %d %s %d %d %s' % (kind, slot, owners[ev['addr']], thread, len(msgs) - 1, c['sender'], iface(c['ttype']), len(codes), ' '.join(toks))))
        elif ev['e'] == 'destroy':
            slot = slots.setdefault(ev['addr'], len(slots))
            ops.append((i, 'D %d' % slot))
            roles.pop(ev['addr'], None)
            if ev['addr'] in owners:
                free_owners.append(owners.pop(ev['addr']))
        else:
            raise MachineryError('only hits and destructions can be scripted in the mock libwayland')
    lines = ['I ' + n for n in ifaces] + msgs
    base = len(lines)
    lines += [t for _, t in ops]
    segs, raw = e3.run_scenario(lines, argv=('-C',), ncontinue=len(ops) + 10)
    if 'end' not in segs:
        raise MachineryError('the scenario did not run to its end: ' + raw[-600:])
    for j, (i, _) in enumerate(ops):
        seg = segs.get(base + j + 1, [])
        items = []
        raised = False
        for l in e3.interesting(seg):
            if l.startswith('Traceback') or l.startswith('Python Exception') or l.startswith('  File ') or l.startswith('    '):
                raised = raised or l.startswith('Traceback') or l.startswith('Python Exception')
                continue
            it = lexer.lex_out(l) if not l.startswith('Warning: ') else lexer.lex_err(l)
            if it['k'] == 'text' and (l.startswith('Error') or 'Error' in l[:30]):
                raised = True
                continue
            if it['k'] in ('new', 'closed', 'msg', 'stopped', 'warning', 'junk'):
                items.append(it)
        events[i]['obs'] = {'items': [x for x in items if x['k'] != 'sep'], 'halt': False, 'raised': raised}
    return trace
