"""Independent extraction of the protocol descriptions the tool loads.

Reads the XML files under /repo/resources/protocols (and the two system
directories the tool also looks at) with xml.dom.minidom - it shares no code
with core/wl/protocol.py (ElementTree) - and writes them in the shape
spec/Protocol.tla expects (Proto).  Integers are written as 32-bit two's
complement because TLC integers are 32 bit.

The highest version of an interface wins (Protocol!LoadOne); when two
descriptions of an interface have the same version but different content the
statement accepts either, so the interface is listed under `ambiguous` and the
checks do not judge it.
"""
import os, re, sys, json
from xml.dom import minidom

REPO = os.environ.get('VERIF_REPO', '/repo')
DIRS = ['/usr/share/wayland', '/usr/share/wayland-protocols', os.path.join(REPO, 'resources', 'protocols')]

# enum tags the tool adds by hand for protocols that omit them (C07 anchor "load_all(): enum tags added by hand")
HAND_TAGS = [
    ('wl_data_offer', 'set_actions', 'dnd_actions', 'wl_data_device_manager.dnd_action'),
    ('wl_data_offer', 'set_actions', 'preferred_action', 'wl_data_device_manager.dnd_action'),
    ('wl_data_offer', 'source_actions', 'source_actions', 'wl_data_device_manager.dnd_action'),
    ('wl_data_offer', 'action', 'dnd_action', 'wl_data_device_manager.dnd_action'),
    ('wl_data_source', 'set_actions', 'dnd_actions', 'wl_data_device_manager.dnd_action'),
    ('wl_data_source', 'action', 'dnd_action', 'wl_data_device_manager.dnd_action'),
    ('wl_pointer', 'button', 'button', 'fake_enums.button'),
    ('zxdg_toplevel_v6', 'configure', 'states', 'state'),
    ('zxdg_toplevel_v6', 'resize', 'edges', 'resize_edge'),
    ('zxdg_positioner_v6', 'set_constraint_adjustment', 'constraint_adjustment', 'constraint_adjustment'),
    ('xdg_toplevel', 'configure', 'states', 'state'),
    ('xdg_toplevel', 'resize', 'edges', 'resize_edge'),
    ('xdg_positioner', 'set_constraint_adjustment', 'constraint_adjustment', 'constraint_adjustment'),
    ('zwlr_foreign_toplevel_handle_v1', 'state', 'state', 'state'),
    ('org_kde_kwin_server_decoration_manager', 'default_mode', 'mode', 'mode'),
    ('org_kde_kwin_server_decoration', 'request_mode', 'mode', 'mode'),
    ('org_kde_kwin_server_decoration', 'mode', 'mode', 'mode'),
]
FAKE_ENUMS = {'version': 1, 'msgs': {}, 'enums': {'button': {'bitfield': False, 'entries': [
    {'name': 'left', 'value': 0x110}, {'name': 'right', 'value': 0x111}, {'name': 'middle', 'value': 0x112}]}}}


def tc(v):
    """32-bit two's complement"""
    v &= 0xffffffff
    return v - (1 << 32) if v >= (1 << 31) else v


def enum_value(text):
    text = text.strip()
    m = re.fullmatch(r'(\w+)\s*<<\s*(\w+)', text)
    if m:
        return int(m.group(1), 0) << int(m.group(2), 0)
    return int(text, 0)


def children(node, *tags):
    return [c for c in node.childNodes if c.nodeType == c.ELEMENT_NODE and c.tagName in tags]


def read_file(path):
    doc = minidom.parse(path)
    root = doc.documentElement
    out = []
    if root.tagName != 'protocol':
        return out
    for iface in children(root, 'interface'):
        msgs, enums, kinds = {}, {}, {}
        for m in children(iface, 'request', 'event'):
            args = []
            for a in children(m, 'arg'):
                enum = a.getAttribute('enum') if a.hasAttribute('enum') else ''
                args.append({'name': a.getAttribute('name'), 'type': a.getAttribute('type'),
                             'iface': a.getAttribute('interface') if a.hasAttribute('interface') else '',
                             'enum': enum})
            # a later message of the same name replaces an earlier one (request vs event of one name)
            msgs[m.getAttribute('name')] = args
            kinds[m.getAttribute('name')] = m.tagName
        for e in children(iface, 'enum'):
            entries = {}
            for en in children(e, 'entry'):
                entries[en.getAttribute('name')] = enum_value(en.getAttribute('value'))
            bf = e.getAttribute('bitfield') if e.hasAttribute('bitfield') else 'false'
            enums[e.getAttribute('name')] = {'bitfield': bf == 'true',
                                             'entries': [{'name': k, 'value': v} for k, v in entries.items()]}
        out.append({'name': iface.getAttribute('name'), 'version': int(iface.getAttribute('version')),
                    'msgs': msgs, 'enums': enums, 'kinds': kinds, 'file': path})
    return out


def discover(p):
    if os.path.isdir(p):
        r = []
        for i in sorted(os.listdir(p)):
            r += discover(os.path.join(p, i))
        return r
    if os.path.isfile(p) and p.endswith('.xml'):
        return [p]
    return []


def split_enum(path):
    """'iface.enum' or 'enum' -> (eiface, ename); eiface '' = own interface"""
    if not path:
        return '', ''
    parts = path.split('.')
    if len(parts) == 1:
        return '', parts[0]
    return parts[-2], parts[-1]


def _body(iface):
    """hand tags applied, enum paths split, duplicate argument names collapsed"""
    msgs = {}
    for mn, args in iface['msgs'].items():
        seen = {}
        for a in args:
            enum = a['enum']
            for i, m, an, e in HAND_TAGS:
                if (i, m, an) == (iface['name'], mn, a['name']):
                    enum = e
            ei, en = split_enum(enum)
            # duplicate argument names collapse in the tool (a mapping keyed by name): first position, last content
            seen[a['name']] = {'name': a['name'], 'type': a['type'], 'iface': a['iface'], 'eiface': ei, 'ename': en}
        msgs[mn] = list(seen.values())
    enums = {en: {'bitfield': e['bitfield'], 'entries': [{'name': x['name'], 'value': tc(x['value'])} for x in e['entries']]}
             for en, e in iface['enums'].items()}
    return {'version': iface['version'], 'msgs': msgs, 'enums': enums}


def extract(dirs=None):
    cands = {}
    nfiles = 0
    for d in (dirs or DIRS):
        for f in discover(d):
            nfiles += 1
            for iface in read_file(f):
                cur = cands.get(iface['name'])
                if cur is None or cur[0]['version'] < iface['version']:
                    cands[iface['name']] = [iface]
                elif cur[0]['version'] == iface['version']:
                    cur.append(iface)
    proto, amb_msgs, amb_enums, kinds = {}, set(), set(), {}
    for name, cs in cands.items():
        bodies = [_body(c) for c in cs]
        proto[name] = bodies[0]
        kinds[name] = cs[0]['kinds']
        for b in bodies[1:]:
            for m in set(b['msgs']) | set(bodies[0]['msgs']):
                if b['msgs'].get(m) != bodies[0]['msgs'].get(m):
                    amb_msgs.add(name + '.' + m)
            for e in set(b['enums']) | set(bodies[0]['enums']):
                if b['enums'].get(e) != bodies[0]['enums'].get(e):
                    amb_enums.add(name + '.' + e)
    proto['fake_enums'] = json.loads(json.dumps(FAKE_ENUMS))
    # a message whose enum lives in an ambiguous enum is ambiguous as well
    for name, body in proto.items():
        for mn, args in body['msgs'].items():
            for a in args:
                if a['ename'] and ((a['eiface'] or name) + '.' + a['ename']) in amb_enums:
                    amb_msgs.add(name + '.' + mn)
    return {'proto': proto, 'kinds': kinds, 'amb_msgs': sorted(amb_msgs), 'amb_enums': sorted(amb_enums), 'files': nfiles}


def subset(proto, ifaces):
    """Restriction to the interfaces a trace mentions plus the interfaces their enums live in."""
    need = set(i for i in ifaces if i in proto)
    for i in list(need):
        for args in proto[i]['msgs'].values():
            for a in args:
                if a['eiface'] and a['eiface'] in proto:
                    need.add(a['eiface'])
    return {i: proto[i] for i in sorted(need)}


_cache = None


def load():
    global _cache
    if _cache is None:
        _cache = extract()
    return _cache


if __name__ == '__main__':
    d = extract()
    p = d['proto']
    print(len(p), 'interfaces,', sum(len(i['msgs']) for i in p.values()), 'messages,',
          sum(len(a) for i in p.values() for a in i['msgs'].values()), 'args,',
          sum(len(i['enums']) for i in p.values()), 'enums; ambiguous:', d['amb_msgs'], d['amb_enums'], 'files', d['files'])
    if len(sys.argv) > 1:
        json.dump(d, open(sys.argv[1], 'w'))
