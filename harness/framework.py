"""Verdicts, replays, evidence, known findings (DESIGN 3.5)."""
import hashlib, json, os, random, sys, time

VERIF = os.path.dirname(os.path.dirname(os.path.abspath(__file__)))
OUT = os.path.join(VERIF, 'out')
REPLAYS = os.path.join(OUT, 'replays')
EVIDENCE = os.path.join(VERIF, 'evidence')
KNOWN = os.path.join(VERIF, 'known_findings.json')


class Ctx:
    def __init__(self, prop, tier='quick', seed=0):
        self.prop, self.tier, self.seed = prop, tier, seed
        self.rnd = random.Random(seed * 1000003 + sum(ord(c) for c in prop))
        self.t0 = time.time()

    @property
    def quick(self):
        return self.tier == 'quick'

    def pick(self, quick, thorough):
        return quick if self.tier == 'quick' else thorough

    def elapsed(self):
        return time.time() - self.t0


class Violation:
    def __init__(self, key, what, replay=None):
        self.key, self.what, self.replay = key, what, replay or {}


class Report:
    def __init__(self, ctx, level):
        self.ctx, self.level = ctx, level
        self.evaluations = 0
        self.distinct = set()
        self.samples = []
        self.states = 0
        self.transitions = 0
        self.traces = 0
        self.violations = []
        self.notes = []
        self.assumptions = []
        self.extra = {}
        self.rule = ''
        self.exhaustive = False
        self.tlc_runs = []

    def add_tlc(self, r, what):
        """account for a TLC run (harness.tlc.Result or tracecheck.Verdict)"""
        st = getattr(r, 'distinct', None)
        if st is None:
            st = r.states
        tr = getattr(r, 'generated', None)
        if tr is None:
            tr = r.transitions
        self.states += st
        self.transitions += tr
        self.tlc_runs.append({'what': what, 'states': st, 'transitions': tr, 'wall_s': round(getattr(r, 'wall', 0.0), 2)})

    def sample(self, x, cap=6):
        if len(self.samples) < cap:
            self.samples.append(x)

    def case(self, sig):
        self.evaluations += 1
        if len(self.distinct) < 2000000:
            self.distinct.add(sig if isinstance(sig, (str, int, tuple)) else json.dumps(sig, sort_keys=True))

    def violation(self, key, what, replay=None):
        self.violations.append(Violation(key, what, replay))


def load_known():
    if not os.path.exists(KNOWN):
        return []
    return json.load(open(KNOWN)).get('findings', [])


def finish(rep):
    """print verdict lines, write evidence, return the exit status"""
    ctx = rep.ctx
    os.makedirs(REPLAYS, exist_ok=True)
    os.makedirs(EVIDENCE, exist_ok=True)
    known = [k for k in load_known() if k['property'] == ctx.prop and k.get('status', 'known') == 'known']
    known_keys = {k['key']: k for k in known}
    new, seen_known = [], {}
    for v in rep.violations:
        if v.key in known_keys:
            seen_known.setdefault(v.key, v)
        else:
            new.append(v)
    for key, k in known_keys.items():
        # a listed finding is reported whether or not this run's sample happened to hit it
        print('KNOWN-FINDING: property=%s %s [%s]%s' % (ctx.prop, k['what'], key,
                                                        '' if key in seen_known else ' (not reached by this run)'))
    reported = {}
    for v in new:
        if v.key in reported:
            continue
        h = hashlib.sha1((ctx.prop + v.key + json.dumps(v.replay, sort_keys=True, default=str)).encode()).hexdigest()[:12]
        path = os.path.join(REPLAYS, '%s-%s.json' % (ctx.prop, h))
        with open(path, 'w') as f:
            json.dump({'property': ctx.prop, 'key': v.key, 'what': v.what, 'replay': v.replay}, f, indent=1, default=str)
        reported[v.key] = path
        print('VIOLATION property=%s replay=%s' % (ctx.prop, path))
        print('  what: %s [%s]' % (v.what, v.key))
    cov = {
        'evaluations': rep.evaluations,
        'distinct_nontrivial': len(rep.distinct),
        'rule': rep.rule,
        'samples': rep.samples[:8] or ['(none)'],
        'states': rep.states,
        'transitions': rep.transitions,
        'traces_validated_against_impl': rep.traces,
        'exhaustive': rep.exhaustive,
        'tlc_runs': rep.tlc_runs[:40],
        'notes': rep.notes,
        'known_findings_listed': sorted(known_keys),
        'violation_keys': sorted(reported),
    }
    cov.update(rep.extra)
    ev = {'property_id': ctx.prop, 'tier': ctx.tier, 'seed': ctx.seed, 'level': rep.level, 'coverage': cov,
          'assumptions': rep.assumptions, 'wall_s': round(ctx.elapsed(), 2), 'violations': len(reported)}
    with open(os.path.join(EVIDENCE, ctx.prop + '.json'), 'w') as f:
        json.dump(ev, f, indent=1, default=str)
    print('%s %s: %d evaluations, %d distinct, %d TLC states, %d traces validated, %d violation(s), %.1fs'
          % (ctx.prop, ctx.tier, rep.evaluations, len(rep.distinct), rep.states, rep.traces, len(reported), ctx.elapsed()))
    return 1 if reported else 0
