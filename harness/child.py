#!/usr/bin/env python3
"""The program run-mode tests start: replays a schedule.

usage: child.py SCHEDULE.json [any further words ...]
schedule: {"chunks": [[delay_s, text], ...], "stdout": [[index_of_chunk_before_which, text], ...], "status": n, "linger": s,
           "close_err": bool (close standard error after the last write, before lingering),
           "orphan": seconds a silent child process of the program outlives it, holding standard error open,
           "enc": encoding of the chunk texts ("latin-1": every character is one byte - streams that are not valid UTF-8)}
Reports its own argument vector and WAYLAND_DEBUG on stdout (marked), writes the chunks to stderr, exits with the status.
"""
import json, os, sys, time
s = json.load(open(sys.argv[1]))
sys.stdout.write('CHILD-STDOUT argv=' + json.dumps(sys.argv[2:]) + ' WAYLAND_DEBUG=' + os.environ.get('WAYLAND_DEBUG', '<unset>') + '\n')
sys.stdout.flush()
marks = {}
for i, t in s.get('stdout', []):
    marks.setdefault(i, []).append(t)
for i, (delay, text) in enumerate(s['chunks']):
    for t in marks.get(i, []):
        sys.stdout.write('CHILD-STDOUT ' + t + '\n')
        sys.stdout.flush()
    if delay:
        time.sleep(delay)
    os.write(2, text.encode(s.get('enc', 'utf-8')))
for t in marks.get(len(s['chunks']), []):
    sys.stdout.write('CHILD-STDOUT ' + t + '\n')
    sys.stdout.flush()
if s.get('orphan'):
    # a helper process left behind: it inherits standard error and holds it open for a while after the program has exited
    if os.fork() == 0:
        time.sleep(s['orphan'])
        os._exit(0)
if s.get('close_err'):
    os.close(2)
if s.get('linger'):
    time.sleep(s['linger'])
os._exit(s['status'])
