"""E2: the tool as a real process in file mode - `main.py -C [options] -l LOG` with the commands of the session on its standard
input - compared line for line with what the in-process driver (E1, whose runs TLC validates against Session) records for
the same session.  Everything between main() and the core classes (option handling, stream set-up, the prompt loop, the
read loop on a real file) is only exercised here."""
import copy, json, os, subprocess, tempfile
import e1, lexer, printer, tlc, mrender

PY = '/venv/bin/python'
ENV = dict(os.environ, LANG='C.UTF-8', LC_ALL='C.UTF-8', PYTHONHASHSEED='0', PYTHONIOENCODING='utf-8')
ENV.pop('WAYLAND_DEBUG', None)
ENV.pop('PYTHONUNBUFFERED', None)      # the tool as users run it: its standard output is block-buffered when it is a pipe
PROMPT = 'wl debug $ '


def file_mode_lines(trace, render, timeout=120, mode='file'):
    """-> (stdout lines, Error:/Warning: lines of stderr, exit status, raw stderr); the session must be lines, eof, commands"""
    evs = [e['in'] for e in trace['events']]
    k = next((i for i, e in enumerate(evs) if e['e'] == 'eof'), len(evs))
    if any(e['e'] not in ('msg', 'junk') for e in evs[:k]) or any(e['e'] != 'cmd' for e in evs[k + 1:]):
        raise tlc.MachineryError('a file-mode process session is lines, end of input, commands')
    lines = [printer.line(e, **render) if e['e'] == 'msg' else e['text'] for e in evs[:k]]
    cmds = [e1.command_text(e) for e in evs[k + 1:]]
    init = trace['init']
    opts = ['-C']
    if not init.get('show', True):
        opts.append('--supress')
    if init.get('hasf'):
        opts += ['-f', mrender.r_top(init['f'])]
    if init.get('hasb'):
        opts += ['-b', mrender.r_top(init['b'])]
    tmp = tempfile.mkdtemp(prefix='e2-', dir=os.path.join(tlc.OUT, 'tmp'))
    try:
        log = os.path.join(tmp, 'session.log')
        with open(log, 'w', encoding='utf-8') as f:
            f.write('\n'.join(lines) + ('\n' if lines else ''))
        # the last command ends the prompt loop (a session that ends it itself - `quit`, `resume` - is cut there)
        stop = next((i for i, e in enumerate(evs[k + 1:]) if e['c'] in ('quit', 'resume')), None)
        typed = cmds if stop is None else cmds[:stop + 1]
        stdin = '\n'.join(typed + ([] if stop is not None else ['quit'])) + '\n'
        if mode == 'run':
            # the same lines written by a program to its standard error, the commands typed at the prompt that follows its exit
            sched = os.path.join(tmp, 'sched.json')
            json.dump({'chunks': [[0, '\n'.join(lines) + ('\n' if lines else '')]], 'status': 0, 'stdout': [], 'linger': 0}, open(sched, 'w'))
            how = ['-r', PY, os.path.join(os.path.dirname(os.path.abspath(__file__)), 'child.py'), sched]
        else:
            how = ['-l', log]
        try:
            p = subprocess.run([PY, os.path.join(e1.REPO, 'main.py')] + opts + how, cwd=e1.REPO, env=ENV, input=stdin.encode('utf-8'),
                               stdout=subprocess.PIPE, stderr=subprocess.PIPE, timeout=timeout)
        except subprocess.TimeoutExpired:
            return None, None, None, 'the tool did not finish within %d s' % timeout
    finally:
        import shutil
        shutil.rmtree(tmp, ignore_errors=True)
    import re
    out = re.sub(r'CHILD-STDOUT [^\n]*\n', '', p.stdout.decode('utf-8', 'replace')).replace(PROMPT, '')
    err = p.stderr.decode('utf-8', 'replace')
    return ([l for l in out.split('\n') if l != ''], [l for l in err.split('\n') if l.startswith(('Error: ', 'Warning: '))], p.returncode, err)


def reference_lines(trace, render):
    """what the in-process driver writes for the same session: (out lines, Error:/Warning: lines)"""
    t = copy.deepcopy(trace)
    evs = t['events']
    stop = next((i for i, e in enumerate(evs) if e['in']['e'] == 'cmd' and e['in']['c'] in ('quit', 'resume')), None)
    if stop is not None:
        t['events'] = evs[:stop + 1]
    e1.run(t, render=render, color=False, keep_raw=True)
    out, err = [], []
    for e in t['events']:
        for chan, text in e['obs'].get('_raw', []):
            (out if chan == 'out' else err).extend(l for l in text.split('\n') if l != '')
    return out, [l for l in err if l.startswith(('Error: ', 'Warning: '))], t


def norm_closed(lines):
    """the order of the `Closed ... connection` notices at end of input is not specified: every run of them is sorted"""
    out, run = [], []
    for l in lines:
        if l.startswith('Closed ') and ' connection ' in l:
            run.append(l)
        else:
            out += sorted(run)
            run = []
            out.append(l)
    return out + sorted(run)


def kind_of(line, chan='out'):
    it = lexer.lex_out(line) if chan == 'out' else lexer.lex_err(line)
    return it['k']


def compare(trace, render, mode='file'):
    """-> None if the process shows what the in-process run shows, else (kinds involved, description)"""
    got_out, got_err, rc, raw_err = file_mode_lines(trace, render, mode=mode)
    if got_out is None:
        return {'crash'}, raw_err
    want_out, want_err, ref = reference_lines(trace, render)
    if 'escaped' in ref:
        return None          # the in-process run itself failed: judged there
    if 'Traceback (most recent call last)' in raw_err and 'EOFError' not in raw_err:
        return {'crash'}, 'the process prints a traceback: ' + raw_err[-400:]
    for chan, got, want in (('out', norm_closed(got_out), norm_closed(want_out)), ('err', got_err, want_err)):
        if got != want:
            i = next((j for j, (a, b) in enumerate(zip(got, want)) if a != b), min(len(got), len(want)))
            a = got[i] if i < len(got) else None
            b = want[i] if i < len(want) else None
            kinds = {kind_of(x, chan) for x in (a, b) if x is not None}
            return kinds, ('%s line %d of the process is %r, in process it is %r (%d vs %d lines)' % (chan, i + 1, a, b, len(got), len(want)))
    return None
