"""Matcher abstract syntax (spec/Matcher.tla) -> the text a user would type.

One tree has many spellings (property C05: added white space and redundant
brackets do not change what is selected): `sp` is put around every delimiter,
`at` chooses the optional object sigil, `br` names the components that get a
redundant pair of brackets.
"""

ALPHA = 'abcdefghijklmnopqrstuvwxyz'


def letters(n):
    """incarnation letters, written independently of the tool (shortlex order)"""
    s = ''
    n += 1
    while n > 0:
        n -= 1
        s = ALPHA[n % 26] + s
        n //= 26
    return s


def W(word):
    return {'k': 'w', 'p': list(word)}


ANY = {'k': 'any'}


class Spelling:
    def __init__(self, sp='', at='', br=()):
        self.sp, self.at, self.br = sp, at, frozenset(br)


PLAIN = Spelling()


def _lst(pos, neg, f, s):
    sp = s.sp
    out = (',' + sp).join(f(p) for p in pos)
    if neg:
        out += sp + '!' + sp + (',' + sp).join(f(n) for n in neg)
    return out


def _wrap(text, what, s, empty_ok=False):
    if what in s.br and (text or empty_ok):
        return '[' + s.sp + text + s.sp + ']'
    return text


def r_text(t, s, anytxt='', what=None):
    if t['k'] == 'any':
        return anytxt
    if t['k'] == 'w':
        return _wrap(''.join(t['p']), what, s)
    return '[' + s.sp + _lst(t['pos'], t['neg'], lambda x: r_text(x, s, '*'), s) + s.sp + ']'


def r_obj(o, s, at=None, what='obj'):
    at = s.at if at is None else at
    k = o['k']
    if k == 'any':
        return ''
    if k == 'type':
        return _wrap(r_text(o['t'], s, '*'), what, s)
    if k == 'id':
        return _wrap(at + str(o['id'] & 0xffffffff), what, s)
    if k == 'idgen':
        return _wrap(at + str(o['id'] & 0xffffffff) + letters(o['gen']), what, s)
    if k == 'nil':
        return _wrap('nil', what, s)
    return '[' + s.sp + _lst(o['pos'], o['neg'], lambda x: r_obj(x, s, at, None) or '*', s) + s.sp + ']'


def float_text(raw):
    # raw = value * 256, exact
    v = raw / 256.0
    t = repr(v)
    if 'e' in t or 'E' in t:
        t = '%.8f' % v
    return t


def r_val(v, s):
    k = v['k']
    if k == 'any':
        return ''
    if k == 'int':
        return _wrap(str(v['v']), 'val', s)
    if k == 'float':
        return _wrap(float_text(v['raw']), 'val', s)
    if k == 'str':
        return _wrap('"' + v['s'] + '"', 'val', s)
    if k == 'word':
        return _wrap(r_text(v['t'], s), 'val', s)
    if k == 'obj':
        return _wrap(r_obj(v['o'], s, at='@', what=None), 'val', s)
    return '[' + s.sp + _lst(v['pos'], v['neg'], lambda x: r_val(x, s) or '*', s) + s.sp + ']'


def r_arg(a, s):
    if a['k'] == 'list':
        return '[' + s.sp + _lst(a['pos'], a['neg'], lambda x: r_arg(x, s), s) + s.sp + ']'
    v = r_val(a['val'], s)
    if not a['hasname']:
        return _wrap(v if v else '*', 'arg', s)
    return _wrap(r_text(a['name'], s, '', 'argname') + s.sp + '=' + s.sp + v, 'arg', s)


def r_pat(p, s):
    c = '' if p['conn']['k'] == 'any' else r_text(p['conn'], s, '', 'conn') + s.sp + ':' + s.sp
    if p['form'] == 'bare':
        o = r_obj(p['obj'], s)
        return c + (o if (o or c) else '*')
    o = r_obj(p['obj'], s)
    n = r_text(p['name'], s, '', 'name')
    out = c + o + s.sp + '.' + s.sp + n
    A = p['args']
    if A['k'] == 'args':
        out += s.sp + '(' + s.sp + _lst(A['pos'], A['neg'], lambda x: r_arg(x, s), s) + s.sp + ')'
    return out


def r_top(t, s=PLAIN):
    if t['k'] == 'list':
        if not t['pos'] and not t['neg']:
            return '!'
        return _lst(t['pos'], t['neg'], lambda x: r_pat(x, s), s)
    return r_pat(t, s)


# ---------------------------------------------------------------------------
# constructors
def pat_bare(obj=None, conn=None):
    return {'k': 'pat', 'form': 'bare', 'conn': conn or ANY, 'obj': obj or ANY}


def pat_full(obj=None, name=None, args=None, conn=None):
    return {'k': 'pat', 'form': 'full', 'conn': conn or ANY, 'obj': obj or ANY, 'name': name or ANY,
            'args': args or {'k': 'noargs'}}


def lst(pos, neg=()):
    return {'k': 'list', 'pos': list(pos), 'neg': list(neg)}


STAR = pat_bare()
BANG = lst([], [])


def otype(word):
    return {'k': 'type', 't': W(word)}


def oid(i):
    return {'k': 'id', 'id': i}


def oidgen(i, g):
    return {'k': 'idgen', 'id': i, 'gen': g}


def arg(val, name=None):
    return {'k': 'arg', 'hasname': name is not None, 'name': name or ANY, 'val': val}


def args(pos, neg=()):
    return {'k': 'args', 'pos': list(pos), 'neg': list(neg)}


def words_in(t, acc):
    """collect every message-side string a tree may be compared with (none: pattern words are chars already)"""
    return acc
