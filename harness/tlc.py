"""Run TLC / SANY and read back what they print.

Everything that invokes the model checker goes through run_tlc(); it never
decides a verdict itself, it only reports what TLC said (exit status, state
counts, PrintT lines parsed into Python values, error text).
"""
import os, re, shutil, subprocess, sys, tempfile, time, json

VERIF = os.path.dirname(os.path.dirname(os.path.abspath(__file__)))
SPEC = os.path.join(VERIF, 'spec')
OUT = os.path.join(VERIF, 'out')
JAR = '/opt/veriftools/tla/tla2tools.jar'
DEPS = '/opt/veriftools/tla/CommunityModules-deps.jar'


class MachineryError(Exception):
    """TLC (or the harness) failed in a way that says nothing about the property."""


# --------------------------------------------------------------------------
# parser for values as TLC prints them: <<..>>, {..}, [a |-> .., ..], "str", ints, TRUE/FALSE,
# (a :> b @@ c :> d)
class _P:
    def __init__(self, s):
        self.s = s
        self.i = 0

    def ws(self):
        while self.i < len(self.s) and self.s[self.i] in ' \t\r\n':
            self.i += 1

    def peek(self, t):
        self.ws()
        return self.s.startswith(t, self.i)

    def eat(self, t):
        self.ws()
        if not self.s.startswith(t, self.i):
            raise ValueError('expected %r at %d in %r' % (t, self.i, self.s[max(0, self.i - 30):self.i + 30]))
        self.i += len(t)

    def value(self):
        self.ws()
        s = self.s
        c = s[self.i]
        if s.startswith('<<', self.i):
            self.i += 2
            out = []
            if self.peek('>>'):
                self.eat('>>')
                return out
            while True:
                out.append(self.value())
                if self.peek(','):
                    self.eat(',')
                    continue
                self.eat('>>')
                return out
        if c == '{':
            self.i += 1
            out = []
            if self.peek('}'):
                self.eat('}')
                return ('set', out)
            while True:
                out.append(self.value())
                if self.peek(','):
                    self.eat(',')
                    continue
                self.eat('}')
                return ('set', out)
        if c == '[':
            self.i += 1
            out = {}
            if self.peek(']'):
                self.eat(']')
                return out
            while True:
                self.ws()
                m = re.compile(r'[A-Za-z_0-9]+').match(s, self.i)
                key = m.group(0)
                self.i = m.end()
                self.eat('|->')
                out[key] = self.value()
                if self.peek(','):
                    self.eat(',')
                    continue
                self.eat(']')
                return out
        if c == '(':
            self.i += 1
            out = {}
            while True:
                k = self.value()
                self.eat(':>')
                v = self.value()
                out[k if isinstance(k, (str, int)) else json.dumps(k)] = v
                if self.peek('@@'):
                    self.eat('@@')
                    continue
                self.eat(')')
                return ('fn', out)
        if c == '"':
            j = self.i + 1
            buf = []
            while s[j] != '"':
                if s[j] == '\\':
                    j += 1
                    buf.append({'n': '\n', 't': '\t', 'r': '\r', 'f': '\f'}.get(s[j], s[j]))
                else:
                    buf.append(s[j])
                j += 1
            self.i = j + 1
            return ''.join(buf)
        m = re.compile(r'-?\d+').match(s, self.i)
        if m:
            self.i = m.end()
            return int(m.group(0))
        for word, val in (('TRUE', True), ('FALSE', False)):
            if s.startswith(word, self.i):
                self.i += len(word)
                return val
        m = re.compile(r'[A-Za-z_][A-Za-z_0-9]*').match(s, self.i)
        if m:  # model value
            self.i = m.end()
            return ('mv', m.group(0))
        raise ValueError('cannot parse TLC value at %d: %r' % (self.i, s[self.i:self.i + 40]))


def parse_value(text):
    p = _P(text)
    v = p.value()
    p.ws()
    if p.i != len(p.s):
        raise ValueError('trailing text in TLC value: %r' % p.s[p.i:p.i + 40])
    return v


def unset(v):
    """('set', [...]) -> list, recursively (for JSON dumps)"""
    if isinstance(v, tuple) and v and v[0] in ('set', 'fn', 'mv'):
        return unset(v[1])
    if isinstance(v, list):
        return [unset(x) for x in v]
    if isinstance(v, dict):
        return {k: unset(x) for k, x in v.items()}
    return v


def printed_tuples(stdout, tag):
    """All PrintT(<<tag, ...>>) lines (values may span several lines)."""
    out = []
    lines = stdout.split('\n')
    i = 0
    start = re.compile(r'<<\s*"%s"' % re.escape(tag))
    while i < len(lines):
        ln = lines[i]
        if start.match(ln):
            buf = ln
            # balance << >>
            while buf.count('<<') > buf.count('>>') and i + 1 < len(lines):
                i += 1
                buf += '\n' + lines[i]
            try:
                out.append(parse_value(buf)[1:])
            except ValueError as e:
                raise MachineryError('unparsable TLC output: %s' % e)
        i += 1
    return out


_STAT = re.compile(r'(\d+) states generated, (\d+) distinct states found, (\d+) states left on queue')


class Result:
    def __init__(self):
        self.stdout = ''
        self.rc = None
        self.generated = 0
        self.distinct = 0
        self.wall = 0.0
        self.errors = []        # text of TLC error blocks
        self.violated = []      # names of violated invariants / properties
        self.coverage = {}      # action name -> (distinct, total)
        self.cmd = ''

    @property
    def ok(self):
        return self.rc == 0 and not self.errors and not self.violated


def run_tlc(module, cfg=None, env=None, workers='auto', simulate=None, depth=None, seed=None,
            coverage=False, timeout=3600, extra=(), check_deadlock=None, cwd=SPEC, heap=None,
            allow_violation=False, dfs=False):
    """Run TLC on spec/<module>.tla with spec/<cfg>; returns Result.

    Raises MachineryError if TLC itself fails (parse error, evaluation error,
    timeout) - unless the failure is an invariant/property violation, which is
    returned in Result.violated.
    """
    metadir = tempfile.mkdtemp(prefix='tlc-', dir=os.path.join(OUT, 'tmp'))
    jopts = ['-XX:+UseParallelGC', '-Xss64m']     # deep recursion over long sequences (hundreds of connections)
    if heap:
        jopts.append('-Xmx' + heap)
    if dfs:
        jopts.append('-Dtlc2.tool.queue.IStateQueue=StateDeque')
    cmd = ['java'] + jopts + ['-cp', JAR + ':' + DEPS, 'tlc2.TLC', '-metadir', metadir, '-noGenerateSpecTE',
                              '-workers', str(workers)]
    if cfg:
        cmd += ['-config', cfg]
    if simulate is not None:
        cmd += ['-simulate', simulate]
    if depth is not None:
        cmd += ['-depth', str(depth)]
    if seed is not None:
        cmd += ['-seed', str(seed)]
    if coverage:
        cmd += ['-coverage', '1']
    if check_deadlock is False:
        cmd += ['-deadlock']
    cmd += list(extra) + [module]
    e = dict(os.environ)
    if env:
        e.update(env)
    r = Result()
    r.cmd = ' '.join(cmd)
    t0 = time.time()
    try:
        p = subprocess.run(cmd, cwd=cwd, env=e, stdout=subprocess.PIPE, stderr=subprocess.STDOUT, timeout=timeout)
    except subprocess.TimeoutExpired:
        shutil.rmtree(metadir, ignore_errors=True)
        raise MachineryError('TLC timed out after %ss: %s' % (timeout, r.cmd))
    finally:
        pass
    r.wall = time.time() - t0
    shutil.rmtree(metadir, ignore_errors=True)
    r.rc = p.returncode
    r.stdout = p.stdout.decode('utf-8', 'replace')
    for m in _STAT.finditer(r.stdout):
        r.generated, r.distinct = int(m.group(1)), int(m.group(2))
    for m in re.finditer(r'Error: Invariant (\S+) is violated', r.stdout):
        r.violated.append(m.group(1))
    for m in re.finditer(r'Error: Action property (\S+) is violated', r.stdout):
        r.violated.append(m.group(1))
    for m in re.finditer(r'Error: Temporal properties were violated', r.stdout):
        r.violated.append('temporal')
    if re.search(r'Error: Deadlock reached', r.stdout):
        r.violated.append('deadlock')
    errs = [m.group(0) for m in re.finditer(r'^Error: .*(?:\n(?!\S).*)*', r.stdout, re.M)]
    r.errors = [x for x in errs if not re.match(r'Error: (Invariant|Action property|Temporal|Deadlock|The behavior up to|The following behavior)', x)]
    if coverage:
        for m in re.finditer(r'^<(\w+) line .*?>: (\d+):(\d+)', r.stdout, re.M):
            d, t = int(m.group(2)), int(m.group(3))
            old = r.coverage.get(m.group(1), (0, 0))
            r.coverage[m.group(1)] = (old[0] + d, old[1] + t)
    if r.errors or (r.rc != 0 and not r.violated):
        tail = '\n'.join(r.stdout.split('\n')[-40:])
        raise MachineryError('TLC failed (rc=%s): %s\n%s\n%s' % (r.rc, r.cmd, '\n'.join(r.errors)[:3000], tail[-3000:]))
    if r.violated and not allow_violation:
        pass
    return r


def counterexample(stdout):
    """The states of TLC's error trace as printed text blocks."""
    return re.findall(r'^State \d+:.*?(?=^State \d+:|\Z|^\d+ states generated)', stdout, re.M | re.S)


def sany(module, cwd=SPEC):
    p = subprocess.run(['java', '-cp', JAR + ':' + DEPS, 'tla2sany.SANY', module], cwd=cwd,
                       stdout=subprocess.PIPE, stderr=subprocess.STDOUT)
    out = p.stdout.decode('utf-8', 'replace')
    if p.returncode != 0 or re.search(r'\*\*\* Errors|Fatal errors|Could not find module|Abort', out):
        raise MachineryError('SANY failed on %s:\n%s' % (module, out[-3000:]))
    return out


os.makedirs(os.path.join(OUT, 'tmp'), exist_ok=True)
