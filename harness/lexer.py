"""Lexer for what the tool prints (colour already removed): one written chunk -> one observed item.

The item shapes are the ones spec/TraceSession.tla compares (ItemAspects).
Anything the lexer does not recognise becomes {"k":"text"} - never an error:
a verdict about unexpected output belongs to the specification.
"""
import ast, re
from fractions import Fraction

ESC = re.compile(r'\x1b\[[\d;]*m')
NOTIMEOBS = -20000000      # "no lifespan shown" (units of 1e-4 s; a shown lifespan can be negative when log times go back)


def strip_color(s):
    return ESC.sub('', s)


def tc(v):
    v &= 0xffffffff
    return v - (1 << 32) if v >= (1 << 31) else v


# the incarnation letters are a..z runs (or `?`); anything else the tool might print there (a wrong symbol, nothing at all) is
# still lexed as a label, so that a mislabelled mention is reported as a wrong incarnation and not as an unreadable line
LETTERS = r'(?:[a-z]+|\?|[^\sA-Za-z0-9_.,()\[\]=&:"\'-]{1,4}[a-z]*|(?=[.,)\]]| --|$))'
LABEL = re.compile(r'(?P<unres>unresolved )?(?P<type>\?\?\?|\w+)@(?P<id>\d+)(?P<letters>' + LETTERS + ')')


def lex_label(text):
    m = LABEL.fullmatch(text)
    if not m:
        return None
    ty = m.group('type')
    return {'type': '' if ty == '???' else ty, 'id': tc(int(m.group('id'))),
            'letters': m.group('letters'), 'unres': bool(m.group('unres')) or m.group('letters') == '?'}


def _scan_quoted(s, i):
    """s[i] is a quote; returns index after the closing quote"""
    q = s[i]
    j = i + 1
    while j < len(s):
        if s[j] == '\\':
            j += 2
            continue
        if s[j] == q:
            return j + 1
        j += 1
    raise ValueError('unterminated string')


def _num_raw(text):
    """decimal / float text -> value*256 as an exact integer, or None"""
    try:
        f = float(text)
        if f != f or f in (float('inf'), float('-inf')):
            return None
        fr = Fraction(f) * 256
        if fr.denominator != 1:
            return None
        return int(fr)
    except ValueError:
        return None


_LAB = r'(?:\(none\)|INVALID ENUM VALUE|\w+)'
_LABELS = re.compile(':(' + _LAB + '(?:&' + _LAB + ')*)')


def lex_value(s, i):
    """value starting at s[i]; returns (arg dict without name, next index)"""
    if s[i] in '\'"':
        j = _scan_quoted(s, i)
        return {'k': 'str', 's': ast.literal_eval(s[i:j])}, j
    if s.startswith('Unknown: ', i):
        j = _scan_quoted(s, i + 9)
        return {'k': 'unknown', 'text': ast.literal_eval(s[i + 9:j])}, j
    if s.startswith('null ', i):
        m = re.compile(r'null (\?\?|[\w\*]+)').match(s, i)
        return {'k': 'nil', 'niltype': '' if m.group(1) == '??' else m.group(1)}, m.end()
    if s.startswith('fd ', i):
        m = re.compile(r'fd (-?\d+)').match(s, i)
        return {'k': 'fd', 'v': int(m.group(1))}, m.end()
    if s[i] == '[':
        # array: '[...]' or a list of values
        depth, j = 0, i
        while j < len(s):
            if s[j] in '\'"':
                j = _scan_quoted(s, j)
                continue
            if s[j] == '[':
                depth += 1
            elif s[j] == ']':
                depth -= 1
                if depth == 0:
                    break
            j += 1
        inner = s[i + 1:j]
        a = {'k': 'array'}
        if inner != '...':
            vals, p = [], 0
            while p < len(inner):
                v, p = lex_value(inner, p)
                vals.append(v)
                if inner.startswith(', ', p):
                    p += 2
            a['values'] = vals
        return a, j + 1
    new = False
    p = i
    if s.startswith('new ', p):
        new = True
        p += 4
    m = LABEL.match(s, p)
    if m:
        return {'k': 'obj', 'new': new, 'obj': lex_label(m.group(0))}, m.end()
    if s[i] == '?' and (i + 1 == len(s) or s[i + 1] in ',)'):
        return {'k': 'unknown', 'text': None}, i + 1
    m = re.compile(r'-?\d+(?=:|, |\)|\]|$)').match(s, i)
    if m:
        a = {'k': 'int', 'v': int(m.group(0)), 'labels': []}
        j = m.end()
        lm = _LABELS.match(s, j)
        if lm:
            a['labels'] = lm.group(1).split('&')
            j = lm.end()
        return a, j
    m = re.compile(r'-?(?:\d+\.?\d*(?:[eE][+-]?\d+)?|inf|nan)').match(s, i)
    if m:
        raw = _num_raw(m.group(0))
        return {'k': 'float', 'raw': raw if raw is not None else 0, 'text': m.group(0), 'exact': raw is not None}, m.end()
    raise ValueError('cannot lex value at %r' % s[i:i + 30])


def lex_args(s, i):
    """s[i] is just after '(' ; returns (args, index after ')')"""
    args = []
    if s[i] == ')':
        return args, i + 1
    while True:
        name = ''
        m = re.compile(r'([A-Za-z_]\w*)=').match(s, i)
        if m:
            name = m.group(1)
            i = m.end()
        a, i = lex_value(s, i)
        a['name'] = name
        args.append(a)
        if s.startswith(', ', i):
            i += 2
            continue
        if s[i] == ')':
            return args, i + 1
        raise ValueError('cannot lex args at %r' % s[i:i + 30])


MSG_HEAD = re.compile(r'(?P<sent>→ )?(?P<label>(?:unresolved )?(?:\?\?\?|\w+)@\d+' + LETTERS + r')\.(?P<name>\w+)\(')


def lex_message_body(s):
    """'[→ ]obj.name(args)[ -- obj.destroyed[ after Ns]][ ↲]' -> dict or None"""
    m = MSG_HEAD.match(s)
    if not m:
        return None
    try:
        args, i = lex_args(s, m.end())
    except (ValueError, IndexError, SyntaxError):
        return None
    rest = s[i:]
    out = {'sent': bool(m.group('sent')), 'target': lex_label(m.group('label')), 'name': m.group('name'),
           'args': args, 'dest': {'id': 0, 'type': '', 'letters': '', 'unres': False}, 'life': NOTIMEOBS}
    received_mark = False
    if rest.endswith(' ↲'):
        received_mark = True
        rest = rest[:-2]
    if rest:
        d = re.fullmatch(r' -- (?P<label>(?:unresolved )?(?:\?\?\?|\w+)@\d+' + LETTERS + r')\.destroyed(?: after (?P<life>-?\d+\.\d{4})s)?', rest)
        if not d:
            return None
        out['dest'] = lex_label(d.group('label'))
        if d.group('life') is not None:
            out['life'] = dec4(d.group('life'))
    # direction is shown twice (arrow for sent, hook for received): they must agree
    if received_mark == out['sent']:
        out['dir_inconsistent'] = True
    return out


def dec4(text):
    """'12.3456' -> 123456 (units of 1e-4 s)"""
    neg = text.strip().startswith('-')
    a, b = text.strip().lstrip('-').split('.')
    v = int(a) * 10000 + int(b[:4].ljust(4, '0'))
    return -v if neg else v


# (any number of decimals is read: a time column the tool gets wrong is a wrong time, not an unreadable line)
MSG_LINE = re.compile(r'\s*(?P<time>-?\d+\.\d+) (?P<conn>\w*): (?P<body>.*)', re.S)
NOTICE = re.compile(r'(?P<what>New|Closed) (?P<role>client|server|unknown type) connection (?P<name>\w+)')
SEP = re.compile(r'    ───┤ (?P<gap>-?\d+\.\d{4})s ├───')
JUNK = re.compile(r'       \|  (?P<text>.*)', re.S)
CONNLINE = re.compile(r'(?P<cur> => |    )(?P<name>\w+) \((?P<inner>.*)\): (?P<state>open|closed), (?P<n>\d+) messages', re.S)
COUNTS = re.compile(r"\((?P<a>\d+) matched, (?P<b>\d+) didn't(?:, (?P<c>\d+) not checked)?\)")


def lex_out(text):
    """one chunk written to the out stream"""
    s = strip_color(text)
    m = NOTICE.fullmatch(s)
    if m:
        return {'k': 'new' if m.group('what') == 'New' else 'closed',
                'role': 'unknown' if m.group('role') == 'unknown type' else m.group('role'), 'name': m.group('name')}
    m = SEP.fullmatch(s)
    if m:
        return {'k': 'sep', 'gap': dec4(m.group('gap'))}
    m = JUNK.fullmatch(s)
    if m:
        # the passed-through text is compared as it is: escape sequences of the *input* are part of it
        # (the tool's own leading reset, when it writes with colour, is not)
        raw = text[len('\x1b[0m'):] if text.startswith('\x1b[0m') else text
        mr = JUNK.fullmatch(raw)
        return {'k': 'junk', 'text': (mr or m).group('text')}
    if s.startswith('    Stopped at '):
        b = lex_message_body(s[len('    Stopped at '):])
        if b is not None:
            b['k'] = 'stopped'
            return b
    m = MSG_LINE.fullmatch(s)
    if m:
        b = lex_message_body(m.group('body'))
        if b is not None:
            b['k'] = 'msg'
            b['time'] = dec4(m.group('time'))
            b['cname'] = m.group('conn')
            return b
    m = COUNTS.fullmatch(s)
    if m:
        return {'k': 'counts', 'matched': int(m.group('a')), 'didnt': int(m.group('b')), 'unchecked': int(m.group('c') or 0)}
    if s.startswith('Messages that match '):
        return {'k': 'info', 'what': 'list', 'text': s}
    if s == ' ╰╴ No messages yet':
        return {'k': 'none', 'n': 0, 'text': s}
    m = re.fullmatch(r' ╰╴ None of the (\d+) messages so far', s)
    if m:
        return {'k': 'none', 'n': int(m.group(1))}
    if s.startswith('Only showing messages that match ') or s.startswith('Output filter: '):
        return {'k': 'info', 'what': 'filter', 'text': s}
    if s.startswith('Breaking on messages that match: ') or s.startswith('Breakpoint matcher: '):
        return {'k': 'info', 'what': 'break', 'text': s}
    if s == 'Showing messages from all connections' or s.startswith('Switched to connection '):
        return {'k': 'info', 'what': 'sel', 'text': s}
    m = CONNLINE.fullmatch(s)
    if m:
        inner = m.group('inner')
        closedmark = inner.endswith(', closed')
        if closedmark:
            inner = inner[:-len(', closed')]
        role = 'unknown'
        title = ''
        for word, r_ in (('client', 'client'), ('server', 'server'), ('unknown type', 'unknown')):
            if inner == word or inner.startswith(word + ' '):
                role = r_
                title = inner[len(word):]
                if role == 'server' and title.startswith(' to '):
                    title = title[4:]
                elif title.startswith(' '):
                    title = title[1:]
                break
        return {'k': 'connline', 'cur': m.group('cur') == ' => ', 'name': m.group('name'), 'role': role, 'title': title,
                'closedmark': closedmark, 'open': m.group('state') == 'open', 'n': int(m.group('n'))}
    if s.startswith('Traceback (most recent call last)'):
        return {'k': 'crash', 'text': s}
    return {'k': 'text', 'text': s}


def lex_err(text):
    s = strip_color(text)
    if s.startswith('Error: Failed to parse '):
        return {'k': 'error', 'what': 'parse', 'text': s}
    if s.startswith("Error: Expected number after '~'"):
        return {'k': 'error', 'what': 'cap', 'text': s}
    if s.startswith('Error: ') and s.endswith('does not name a connection'):
        return {'k': 'error', 'what': 'conn', 'text': s}
    if s.startswith('Error: '):
        return {'k': 'error', 'what': 'other', 'text': s}
    if s.startswith('Warning: '):
        return {'k': 'warning', 'text': s}
    return {'k': 'errtext', 'text': s}
