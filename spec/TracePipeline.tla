---------------------------- MODULE TracePipeline ----------------------------
(* Recorded runs of the real tool on arbitrary (fuzzed) input against Pipeline: every line takes one of the legal
   outcomes, the run reaches the end of input, and there every announced connection is reported closed once. *)
EXTENDS Pipeline, Json, IOUtils, TLCExt, TLC

Runs == JsonDeserialize(IOEnv.TRACE_FILE)     \* Seq([show, lines : Seq(items), eof : items, reached_eof, escaped])
VARIABLE k
Init == k \in 1..Len(Runs)
Next == UNCHANGED k

RECURSIVE Fold(_, _, _)
Fold(P, lines, i) == IF i > Len(lines) THEN P ELSE Fold(LineStep(P, lines[i]), lines, i + 1)

FirstIllegal(r) == LET bad == {i \in 1..Len(r.lines) : Fold(PInit(r.show), SubSeq(r.lines, 1, i), 1).illegal}
                   IN IF bad = {} THEN 0 ELSE CHOOSE i \in bad : \A j \in bad : i <= j

Check == LET r == Runs[k]  P == Fold(PInit(r.show), r.lines, 1) IN
  /\ (~r.escaped \/ PrintT(<<"DIFF", k, "escaped", 0>>))
  /\ (r.reached_eof \/ PrintT(<<"DIFF", k, "not-consumed", 0>>))
  /\ (~P.illegal \/ PrintT(<<"DIFF", k, "illegal-outcome", FirstIllegal(r)>>))
  /\ ((r.reached_eof => EofOk(P, r.eof)) \/ PrintT(<<"DIFF", k, "closed-notices", 0>>))
=============================================================================
