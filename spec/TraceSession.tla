---------------------------- MODULE TraceSession ----------------------------
(***************************************************************************)
(* Validation of recorded executions of the real tool against Session.     *)
(*                                                                         *)
(* The trace file (JSON, env TRACE_FILE) holds                             *)
(*   dict   : every string that occurs -> its characters                   *)
(*   proto  : the protocol data extracted from /repo/resources/protocols   *)
(*   traces : Seq([init, events : Seq([in, obs])])                         *)
(* `in` is the abstract input event the driver fed (concretised as a log   *)
(* line or a command), `obs` what the tool was observed to do: the lexed   *)
(* output items, and projections of its state read through its public      *)
(* interfaces.  Every input is logged, so the successor is *computed* with *)
(* Session!Step and *compared* with obs; the names of the aspects that     *)
(* differ are printed as FAIL lines (all of them, for every step of every  *)
(* trace: exploration continues from the specification's own state).       *)
(* StateOk / StepOk (the properties proper) are evaluated at every step.   *)
(***************************************************************************)
EXTENDS Session, Json, IOUtils, TLCExt

Data   == JsonDeserialize(IOEnv.TRACE_FILE)
TDict  == Data.dict
TProto == Data.proto
Traces == Data.traces

VARIABLES tid, l, res, bad
vars == <<tid, l, res, bad>>

Near(a, b, tol) == a - b <= tol /\ b - a <= tol
\* a displayed time u (units of 1e-4 s, four decimals) against a time t in ticks (1e-6 s): equal up to the rounding of the last
\* displayed digit.  No multiplication: a wrongly displayed time can be large, and TLC's integers have 32 bits.
NearShown(u, t) == LET q == t \div 100 IN u - q <= 2 /\ q - u <= 1

-----------------------------------------------------------------------------
\* a printed label  type@id+letters  against a reference [id, gen, type, res]
LabelAspects(x, o, tag) ==
  (IF o.id = x.id THEN {} ELSE {tag \o ".id"})
  \cup (IF o.type = x.type THEN {} ELSE {tag \o ".type"})
  \cup (IF x.res
        THEN (IF ~o.unres /\ CharsOf(o.letters) = ToLetters(x.gen) THEN {} ELSE {tag \o ".gen"})
        ELSE (IF o.unres THEN {} ELSE {tag \o ".gen"}))

\* the same from the tool's objects: generation as a number (-1 = none)
RefAspects(x, o, tag) ==
  (IF o.id = x.id THEN {} ELSE {tag \o ".id"})
  \cup (IF o.type = x.type THEN {} ELSE {tag \o ".type"})
  \cup (IF o.gen = x.gen THEN {} ELSE {tag \o ".gen"})

ObjAspects(x, o, tag) == IF "letters" \in DOMAIN o THEN LabelAspects(x, o, tag) ELSE RefAspects(x, o, tag)

ArgAspects(ra, oa) ==
  (IF oa.name = ra.name THEN {} ELSE {"arg.name"})
  \cup
  (IF oa.k # ra.k THEN {"arg.kind"}
   ELSE CASE ra.k = "int"   -> (IF oa.v = ra.v THEN {} ELSE {"arg.value"})
                               \cup (IF oa.labels = ra.labels THEN {} ELSE {"arg.labels"})
          [] ra.k = "float" -> IF oa.raw = ra.raw THEN {} ELSE {"arg.value"}
          [] ra.k = "fd"    -> IF oa.v = ra.v THEN {} ELSE {"arg.value"}
          [] ra.k = "str"   -> IF oa.s = ra.s THEN {} ELSE {"arg.value"}
          [] ra.k = "nil"   -> IF oa.niltype = ra.niltype THEN {} ELSE {"arg.nil"}
          [] ra.k = "obj"   -> (IF oa.new = ra.new THEN {} ELSE {"arg.new"})
                               \cup ObjAspects(ra.obj, oa.obj, "arg.obj")
          [] OTHER          -> {})

\* a message as printed (or as projected from the tool's objects) against
\* the resolved record
MsgAspects(rec, o) ==
  (IF "time" \in DOMAIN o THEN (IF NearShown(o.time, rec.t) THEN {} ELSE {"time"}) ELSE {})
  \cup (IF "t" \in DOMAIN o THEN (IF Near(o.t, rec.t, 1) THEN {} ELSE {"time"}) ELSE {})
  \cup (IF "cname" \in DOMAIN o THEN (IF CharsOf(o.cname) = rec.shownc THEN {} ELSE {"conn"}) ELSE {})
  \cup (IF o.sent = rec.sent THEN {} ELSE {"dir"})
  \cup (IF o.name = rec.name THEN {} ELSE {"name"})
  \cup ObjAspects(rec.target, o.target, "target")
  \cup (IF Len(o.args) # Len(rec.args) THEN {"nargs"}
        ELSE UNION {ArgAspects(rec.args[j], o.args[j]) : j \in 1..Len(rec.args)})
  \cup (IF (o.dest.id = 0) # (rec.destroyed.id = 0) THEN {"dest"}
        ELSE IF rec.destroyed.id = 0 THEN {}
        ELSE ObjAspects(rec.destroyed, o.dest, "dest")
             \cup (IF "life" \in DOMAIN o
                   THEN (IF rec.life = NoTime THEN (IF o.life = -20000000 THEN {} ELSE {"life"})
                         ELSE IF o.life # -20000000 /\ NearShown(o.life, rec.life) THEN {} ELSE {"life"})
                   ELSE {}))

KindOk(e, o) ==
  CASE e.k = "errtext" -> o.k = "junk"
    [] OTHER -> o.k = e.k

ItemAspects(T, e, o) ==
  CASE e.k \in {"new", "closed"} ->
         IF o.role = e.role /\ CharsOf(o.name) = ToCaps(e.ord) THEN {} ELSE {"notice"}
    [] e.k = "junk" -> IF o.text = e.text THEN {} ELSE {"junk"}
    [] e.k = "sep"  -> IF e.gap = -1 \/ NearShown(o.gap, e.gap) THEN {} ELSE {"sep.gap"}
    [] e.k = "msg"  -> {"shown." \o a : a \in MsgAspects(T.hist[e.h], o)}
    [] e.k = "stopped" -> {"stopped." \o a : a \in MsgAspects(T.hist[e.h], o)}
    [] e.k = "counts" -> IF o.matched = e.matched /\ o.didnt = e.didnt /\ o.unchecked = e.unchecked
                         THEN {} ELSE {"counts"}
    [] e.k = "none" -> IF o.n = e.n THEN {} ELSE {"none.n"}
    [] e.k = "connline" ->
         (IF CharsOf(o.name) = ToCaps(e.ord) THEN {} ELSE {"connline.name"})
         \cup (IF o.role = e.role THEN {} ELSE {"connline.role"})
         \cup (IF CharsOf(o.title) = e.title THEN {} ELSE {"connline.title"})
         \cup (IF o.open = e.open /\ o.closedmark = ~e.open THEN {} ELSE {"connline.open"})
         \cup (IF o.n = e.n THEN {} ELSE {"connline.n"})
         \cup (IF o.cur = e.cur THEN {} ELSE {"connline.current"})
    [] e.k \in {"info", "error"} ->
         IF e.what \in {"other", "list-unspecified"} \/ o.what = e.what THEN {} ELSE {"info"}
    [] OTHER -> {}

\* align observed items with expected ones (optional items may be absent)
RECURSIVE ItemsAspects(_, _, _)
ItemsAspects(T, exp, obs) ==
  IF exp = <<>> THEN (IF obs = <<>> THEN {} ELSE {"shape.extra." \o Head(obs).k})
  ELSE IF Head(exp).k = "info" /\ Head(exp).what \in {"other", "list-unspecified"} THEN {}   \* free-form output
  ELSE IF Head(exp).k = "closed" THEN
       \* the order of the closing notices at end of input is not specified: compare the run as a set
       LET n == CHOOSE j \in 1..Len(exp) : (\A i \in 1..j : exp[i].k = "closed")
                                             /\ (j = Len(exp) \/ exp[j + 1].k # "closed")
       IN IF /\ Len(obs) >= n
             /\ \A i \in 1..n : obs[i].k = "closed"
             /\ {<<exp[i].role, ToCaps(exp[i].ord)>> : i \in 1..n}
                  = {<<obs[i].role, CharsOf(obs[i].name)>> : i \in 1..n}
          THEN ItemsAspects(T, SubSeq(exp, n + 1, Len(exp)), SubSeq(obs, n + 1, Len(obs)))
          ELSE {"notice.closed"}
  ELSE IF obs = <<>> THEN (IF \A i \in 1..Len(exp) : exp[i].may THEN {}
                           ELSE {"shape.missing." \o (CHOOSE e \in {exp[i] : i \in 1..Len(exp)} : ~e.may).k})
  ELSE IF KindOk(Head(exp), Head(obs))
       THEN ItemAspects(T, Head(exp), Head(obs)) \cup ItemsAspects(T, Tail(exp), Tail(obs))
       ELSE IF Head(exp).may THEN ItemsAspects(T, Tail(exp), obs)
       ELSE {"shape.want." \o Head(exp).k \o ".got." \o Head(obs).k}

-----------------------------------------------------------------------------
\* projections of the tool's state
ConnsAspects(T, oc) ==
  IF Len(oc) # Len(T.conns) THEN {"conns.count"}
  ELSE UNION {
    (IF CharsOf(oc[k].name) = ConnName(T.conns[k]) THEN {} ELSE {"conns.name"})
    \cup (IF oc[k].role = T.conns[k].role THEN {} ELSE {"conns.role"})
    \cup (IF oc[k].open = T.conns[k].open THEN {} ELSE {"conns.open"})
    \cup (IF oc[k].n = T.conns[k].n THEN {} ELSE {"conns.n"})
    \cup (IF "appid" \in DOMAIN oc[k] THEN (IF CharsOf(oc[k].appid) = T.conns[k].appid THEN {} ELSE {"conns.appid"}) ELSE {})
    \cup (IF "title" \in DOMAIN oc[k] THEN (IF CharsOf(oc[k].title) = T.conns[k].title THEN {} ELSE {"conns.title"}) ELSE {})
    : k \in 1..Len(oc)}

\* od: Seq([id, objs : Seq([type, alive, ct, dt])]) for connection k
DbAspects(d, od) ==
  LET ids == {od[j].id : j \in 1..Len(od)} IN
  \* a difference in the ids, or in the number of incarnations of an id, does not hide what the incarnations both sides
  \* have look like
  (IF ids # DOMAIN d \/ Len(od) # Cardinality(ids) THEN {"db.ids"} ELSE {}) \cup UNION {
    LET i == od[j].id  os == od[j].objs IN
    IF i \notin DOMAIN d THEN {} ELSE
    (IF Len(os) # Len(d[i]) THEN {"db.count"} ELSE {}) \cup UNION {
      (IF os[g].type = d[i][g].type THEN {} ELSE {"db.type"})
      \cup (IF os[g].alive = d[i][g].alive THEN {} ELSE {"db.alive"})
      \cup (IF Near(os[g].ct, d[i][g].ct, 1) THEN {} ELSE {"db.ct"})
      \cup (IF (os[g].dt = NoTime) = (d[i][g].dt = NoTime)
               /\ (d[i][g].dt = NoTime \/ Near(os[g].dt, d[i][g].dt, 1)) THEN {} ELSE {"db.dt"})
      : g \in 1..(IF Len(os) < Len(d[i]) THEN Len(os) ELSE Len(d[i]))}
    : j \in 1..Len(od)}

SelAspects(T, flt, osel, tag) ==
  IF Len(osel) # Len(T.hist) THEN {tag \o ".len"}
  ELSE IF \A j \in 1..Len(osel) : (SelLo(flt, T.hist[j]) => osel[j]) /\ (osel[j] => SelHi(flt, T.hist[j]))
       THEN {} ELSE {tag}

ObsAspects(S, r, ev) ==
  LET T == r.S  o == ev.obs IN
  ItemsAspects(T, r.out, o.items)
  \cup (IF "conns" \in DOMAIN o THEN ConnsAspects(T, o.conns) ELSE {})
  \cup (IF "nh" \in DOMAIN o THEN (IF o.nh = Len(T.hist) THEN {} ELSE {"recorded"}) ELSE {})
  \cup (IF "rec" \in DOMAIN o /\ r.oc = "ok"
        THEN {"rec." \o a : a \in MsgAspects(T.hist[Len(T.hist)], o.rec)} ELSE {})
  \cup (IF "db" \in DOMAIN o
        THEN (IF o.dbk \in 1..Len(T.conns) THEN DbAspects(T.conns[o.dbk].db, o.db) ELSE {"conns.count"})
        ELSE {})
  \cup (IF "fsel" \in DOMAIN o THEN SelAspects(T, T.filter, o.fsel, "filter") ELSE {})
  \cup (IF "bsel" \in DOMAIN o THEN SelAspects(T, T.brk, o.bsel, "break") ELSE {})
  \cup (IF "sel" \in DOMAIN o THEN (IF o.sel = T.sel THEN {} ELSE {"selected"}) ELSE {})
  \cup (IF "before" \in DOMAIN o THEN (IF o.before = Len(S.hist) + 0 * Len(S.conns) THEN {} ELSE {"pacing"}) ELSE {})
  \cup (IF ev.in.e = "eval"
        THEN (IF ~o.accepted THEN {"eval.rejected"}
              ELSE IF Len(o.msel) # Len(T.hist) THEN {"eval.len"}
              ELSE IF \A j \in 1..Len(T.hist) : o.msel[j] = Sem(ev.in.ast, T.hist[j]) THEN {} ELSE {"eval.sem"})
        ELSE {})
  \* the properties proper, on the specification's own states
  \cup (IF StateOk(T) THEN {} ELSE {"PROP.state"})
  \cup (IF ev.in.e \in {"msg", "junk", "eof", "cmd", "open", "close", "eval"}
        THEN (IF StepOk(S, T, ev.in) THEN {} ELSE {"PROP.step"}) ELSE {})

-----------------------------------------------------------------------------
InitOf(tr) ==
  InitState(IF tr.init.hasf THEN Refine(FAll, tr.init.f) ELSE FAll,
            IF tr.init.hasb THEN Refine(FNone, tr.init.b) ELSE FNone,
            tr.init.show)

Init == /\ tid \in 1..Len(Traces)
        /\ l = 1
        /\ res = [S |-> InitOf(Traces[tid]), out |-> <<>>, oc |-> "init"]
        /\ bad = {}

Next == /\ l <= Len(Traces[tid].events)
        /\ LET ev == Traces[tid].events[l] IN
             /\ res' = Step(res.S, ev.in)
             /\ bad' = ObsAspects(res.S, res', ev)
        /\ l' = l + 1
        /\ UNCHANGED tid

Spec == Init /\ [][Next]_vars

\* reporting (always TRUE)
Report ==
  /\ (bad' # {} => PrintT(<<"FAIL", tid, l, bad'>>) /\ PrintT(<<"EXPECT", tid, l, res'.oc, res'.out>>))
  /\ (l' = Len(Traces[tid].events) + 1 => PrintT(<<"DONE", tid>>))
=============================================================================
