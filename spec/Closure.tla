------------------------------- MODULE Closure -------------------------------
(***************************************************************************)
(* C09: what GDB mode must report for a libwayland closure, and what       *)
(* libwayland's own print-out of the same closure retains.                 *)
(*                                                                         *)
(* closure = [name, sig : Seq(char), types : Seq(interface name | ""),     *)
(*            sender, kind, ttype, args : Seq(union value)]                *)
(*   kind 0 client receives, 1/2 server receives, 3/4 sent                 *)
(*   types[i] is the interface libwayland declares for argument i ("" =    *)
(*   NULL); union values by type code:                                     *)
(*     i u h  [v]          integers are carried as decimal text (TLC       *)
(*                         integers are 32 bit; no arithmetic is done)     *)
(*     f      [raw]        24.8 fixed, the value is raw / 256              *)
(*     s      [null, s]    o  [null, id, otype]   otype: the object's own  *)
(*     n      [id]         a  [vals : Seq(text)]            interface      *)
(* The signature also holds version digits and `?` markers: skipped.       *)
(***************************************************************************)
EXTENDS Integers, Sequences, FiniteSets

Codes == {"i", "u", "f", "s", "o", "n", "a", "h"}

\* the type codes of a signature, in order
ArgCodes(sig) == SelectSeq(sig, LAMBDA ch : ch \in Codes)

Sent(c) == c.kind \in {3, 4}

\* one argument as GDB mode must report it
ExtractArg(c, i) ==
  LET code == ArgCodes(c.sig)[i]  a == c.args[i]  ty == c.types[i] IN
  CASE code \in {"i", "u"} -> [k |-> "int", v |-> a.v]
    [] code = "f" -> [k |-> "float", raw |-> a.raw]
    [] code = "s" -> IF a.null THEN [k |-> "nil", niltype |-> ""] ELSE [k |-> "str", s |-> a.s]
    [] code = "o" -> IF a.null THEN [k |-> "nil", niltype |-> ty] ELSE [k |-> "obj", new |-> FALSE, id |-> a.id, type |-> ty]
    [] code = "n" -> [k |-> "obj", new |-> TRUE, id |-> a.id, type |-> ty]
    [] code = "a" -> [k |-> "array", vals |-> a.vals]        \* the whole 32-bit words; trailing bytes (a.extra) are not elements
    [] code = "h" -> [k |-> "fd", v |-> a.v]

Extract(c) ==
  [name |-> c.name, sent |-> Sent(c), tid |-> c.sender,
   ttype |-> IF Sent(c) THEN "" ELSE c.ttype,        \* the sender of an outgoing closure is known by id only
   args |-> [i \in 1..Len(ArgCodes(c.sig)) |-> ExtractArg(c, i)]]

\* what log mode must decode from libwayland's print-out of the closure
PrintedArg(c, i) ==
  LET code == ArgCodes(c.sig)[i]  a == c.args[i]  ty == c.types[i] IN
  CASE code \in {"i", "u"} -> [k |-> "int", v |-> a.v]
    [] code = "f" -> [k |-> "float", raw |-> a.raw]
    [] code = "s" -> IF a.null THEN [k |-> "nil", niltype |-> ""] ELSE [k |-> "str", s |-> a.s]
    [] code = "o" -> IF a.null THEN [k |-> "nil", niltype |-> ""] ELSE [k |-> "obj", new |-> FALSE, id |-> a.id, type |-> a.otype]
    [] code = "n" -> [k |-> "obj", new |-> TRUE, id |-> a.id, type |-> ty]
    [] code = "a" -> [k |-> "array", n |-> Len(a.vals) * 4 + a.extra]   \* the size in bytes; a.extra \in 0..3 are bytes beyond the last whole word
    [] code = "h" -> [k |-> "fd", v |-> a.v]

Printed(c) == [name |-> c.name, sent |-> Sent(c), tid |-> c.sender, ttype |-> c.ttype,
               args |-> [i \in 1..Len(ArgCodes(c.sig)) |-> PrintedArg(c, i)]]

\* what both views retain of an argument: kind and value; for objects the id (the interface is
\* the declared one in GDB mode and the object's own on the print-out: equal whenever both are known)
Retained(x) ==
  CASE x.k = "obj" -> [k |-> "obj", new |-> x.new, id |-> x.id]
    [] x.k = "nil" -> [k |-> "nil"]
    [] x.k = "array" -> [k |-> "array"]
    [] OTHER -> x
Agreement(c) ==
  /\ Extract(c).name = Printed(c).name /\ Extract(c).sent = Printed(c).sent /\ Extract(c).tid = Printed(c).tid
  /\ Len(Extract(c).args) = Len(Printed(c).args)
  /\ \A i \in 1..Len(Extract(c).args) : Retained(Extract(c).args[i]) = Retained(Printed(c).args[i])
=============================================================================
