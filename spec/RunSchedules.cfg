CONSTANT N = 6
INIT Init
NEXT Next
CHECK_DEADLOCK FALSE
