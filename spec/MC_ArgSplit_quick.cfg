CONSTANTS MaxArg = 3  MaxStr = 3  MaxArgs = 2
INIT Init
NEXT Next
INVARIANT RoundTrip
CHECK_DEADLOCK FALSE
