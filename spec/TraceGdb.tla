------------------------------- MODULE TraceGdb -------------------------------
(***************************************************************************)
(* Validation of recorded executions of the real GDB plugin (stepped       *)
(* in-process against a stand-in `gdb` module, or inside the real gdb on a  *)
(* mock libwayland) against GdbSession.  Same scheme as TraceSession: the   *)
(* successor is computed from the logged input, compared with the logged    *)
(* observation, differing aspects are printed.  Extra observations:         *)
(*   halt  what the breakpoint's stop() returned to GDB                     *)
(*   exec  the GDB command the plugin executed ("continue" / "quit" / "none")*)
(***************************************************************************)
EXTENDS TraceSession, GdbSession

GInitOf(tr) ==
  GInit(IF tr.init.hasf THEN Refine(FAll, tr.init.f) ELSE FAll,
        IF tr.init.hasb THEN Refine(FNone, tr.init.b) ELSE FNone,
        tr.init.show)

GObsAspects(G, r, ev) ==
  ObsAspects(G.S, [S |-> r.G.S, out |-> r.out, oc |-> r.oc], ev)
  \cup (IF "halt" \in DOMAIN ev.obs /\ r.haltKnown THEN (IF ev.obs.halt = r.halt THEN {} ELSE {"halt"}) ELSE {})
  \cup (IF "exec" \in DOMAIN ev.obs THEN (IF ev.obs.exec = r.exec THEN {} ELSE {"exec"}) ELSE {})
  \cup (IF "raised" \in DOMAIN ev.obs THEN (IF ev.obs.raised THEN {"raised"} ELSE {}) ELSE {})
  \cup (IF GStateOk(r.G) THEN {} ELSE {"PROP.gstate"})
  \cup (IF GStepOk(G, r, ev.in) THEN {} ELSE {"PROP.gstep"})

GTInit == /\ tid \in 1..Len(Traces)
          /\ l = 1
          /\ res = [G |-> GInitOf(Traces[tid]), out |-> <<>>, halt |-> FALSE, haltKnown |-> TRUE, exec |-> "none", oc |-> "init"]
          /\ bad = {}

GTNext == /\ l <= Len(Traces[tid].events)
          /\ LET ev == Traces[tid].events[l] IN
               /\ res' = GStep(res.G, ev.in)
               /\ bad' = GObsAspects(res.G, res', ev)
          /\ l' = l + 1
          /\ UNCHANGED tid

GReport ==
  /\ (bad' # {} => PrintT(<<"FAIL", tid, l, bad'>>) /\ PrintT(<<"EXPECT", tid, l, res'.oc, [out |-> res'.out, halt |-> res'.halt, exec |-> res'.exec]>>))
  /\ (l' = Len(Traces[tid].events) + 1 => PrintT(<<"DONE", tid>>))
=============================================================================
