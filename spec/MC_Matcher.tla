----------------------------- MODULE MC_Matcher -----------------------------
(***************************************************************************)
(* C05 on the specification itself and as a table for the tool.            *)
(*                                                                         *)
(* A fixed well-formed session (two connections, re-used ids, a server-    *)
(* range id, nil and object arguments, new ids, delete_id) is resolved by  *)
(* Session!Step; its recorded messages are the universe.  TLC enumerates   *)
(* every pattern over the component pools, checks the laws the statement   *)
(* of C05 lists (invariants below) and prints, for each pattern, the set   *)
(* of messages Matcher!Sem selects; the harness renders the pattern in     *)
(* several spellings, parses it with the real tool, evaluates it on the    *)
(* real messages of the same session and compares.                         *)
(***************************************************************************)
EXTENDS MCBase, Json, SequencesExt

T(n) == 1000 + n * 100
Ev(c, n, m) == [e |-> "msg", tag |-> c, t |-> T(n), m |-> m]
S1 == -16777216

Script == <<
  Ev("1", 1,  Msg("wl_display", 1, "get_registry", TRUE, <<New("wl_registry", 2)>>)),
  Ev("1", 2,  Msg("wl_registry", 2, "bind", TRUE, <<IntA(1), StrA("wl_compositor"), IntA(4), New("", 3)>>)),
  Ev("2", 3,  Msg("wl_display", 1, "get_registry", FALSE, <<New("wl_registry", 2)>>)),
  Ev("1", 4,  Msg("wl_compositor", 3, "create_surface", TRUE, <<New("wl_surface", 4)>>)),
  Ev("1", 5,  Msg("wl_surface", 4, "frame", TRUE, <<New("wl_callback", 5)>>)),
  Ev("1", 6,  Msg("wl_surface", 4, "set_input_region", TRUE, <<NilA>>)),
  Ev("1", 7,  Msg("wl_surface", 4, "commit", TRUE, <<>>)),
  Ev("2", 8,  Msg("wl_display", 1, "sync", FALSE, <<New("wl_callback", 3)>>)),
  Ev("1", 9,  Msg("wl_callback", 5, "done", FALSE, <<IntA(7)>>)),
  Ev("1", 10, Msg("wl_display", 1, "delete_id", FALSE, <<IntA(5)>>)),
  Ev("1", 11, Msg("wl_surface", 4, "frame", TRUE, <<New("wl_callback", 5)>>)),
  Ev("2", 12, Msg("wl_callback", 3, "done", TRUE, <<IntA(3)>>)),
  Ev("2", 13, Msg("wl_display", 1, "delete_id", TRUE, <<IntA(3)>>)),
  Ev("1", 14, Msg("wl_registry", 2, "bind", TRUE, <<IntA(2), StrA("wl_data_device"), IntA(3), New("", 6)>>)),
  Ev("1", 15, Msg("wl_data_device", 6, "data_offer", FALSE, <<New("wl_data_offer", S1)>>)),
  Ev("1", 16, Msg("wl_data_device", 6, "selection", FALSE, <<ObjA("wl_data_offer", S1)>>)),
  Ev("1", 17, Msg("wl_data_device", 6, "data_offer", FALSE, <<New("wl_data_offer", S1)>>)),
  Ev("1", 18, Msg("wl_data_device", 6, "selection", FALSE, <<NilA>>)),
  Ev("1", 19, Msg("wl_callback", 5, "done", FALSE, <<IntA(5)>>)),
  Ev("2", 20, Msg("wl_display", 1, "sync", FALSE, <<New("wl_callback", 3)>>)),
  Ev("2", 21, Msg("wl_callback", 3, "done", TRUE, <<IntA(-3)>>)),       \* a negative value
  Ev("1", 22, Msg("wl_data_offer", S1, "receive", TRUE, <<StrA("text/plain"), FdA(7)>>)) >>   \* a file descriptor: a number like any other

CONSTANT QPats      \* the second pattern of the pair laws
VARIABLES p, q, h, phase

RECURSIVE Run(_, _)
Run(S, evs) == IF evs = <<>> THEN S ELSE Run(Step(S, Head(evs)).S, Tail(evs))
Final == Run(InitState(FAll, FNone, TRUE), Script)
Hist  == h            \* a variable only so that TLC resolves the script once per state instead of at every use
N     == Len(Script)

\* component pools
ConnP == {AnyT, Wd("A"), Wd("B")}
ObjP  == {AnyO, TypeO("wl_callback"), TypeO("wl_surface"), TypeO("wl_*"), TypeO("wl_c*callback"), TypeO("wl_data_offer"), IdO(3), IdO(5), IdO(1),
          IdGenO(5, 0), IdGenO(5, 1), IdGenO(3, 1), IdO(S1), IdGenO(S1, 1), [k |-> "nil"],
          [k |-> "list", pos |-> <<TypeO("wl_callback"), IdO(4)>>, neg |-> <<IdGenO(5, 1)>>],
          [k |-> "list", pos |-> <<>>, neg |-> <<TypeO("wl_display")>>],
          \* a bracket list as one alternative of another list: its own exclusions stay its own
          [k |-> "list", pos |-> <<TypeO("wl_surface"), [k |-> "list", pos |-> <<TypeO("wl_*")>>, neg |-> <<TypeO("wl_callback"), TypeO("wl_display")>>]>>, neg |-> <<>>]}
NameP == {AnyT, Wd("sync"), Wd("new"), Wd("destroyed"), Wd("s*"), Wd("s*sync"), Wd("*e*"), Wd("delete_id"),
          [k |-> "list", pos |-> <<Wd("frame"), Wd("commit")>>, neg |-> <<>>],
          [k |-> "list", pos |-> <<>>, neg |-> <<Wd("done")>>],
          [k |-> "list", pos |-> <<Wd("commit"), [k |-> "list", pos |-> <<Wd("*e*")>>, neg |-> <<Wd("delete_id")>>]>>, neg |-> <<>>]}
ArgI(hn, nm, v) == [k |-> "arg", hasname |-> hn, name |-> nm, val |-> v]
IntV(n) == [k |-> "int", v |-> n]
ObjV(o) == [k |-> "obj", o |-> o]
WordV(w) == [k |-> "word", t |-> Wd(w)]
AnyV == [k |-> "any"]
ArgsOf(pos, neg) == [k |-> "args", pos |-> pos, neg |-> neg]
ArgsP == {[k |-> "noargs"], ArgsOf(<<>>, <<>>),
          ArgsOf(<<ArgI(FALSE, AnyT, IntV(7))>>, <<>>), ArgsOf(<<ArgI(FALSE, AnyT, IntV(5))>>, <<>>),
          ArgsOf(<<ArgI(TRUE, Wd("id"), AnyV)>>, <<>>), ArgsOf(<<ArgI(TRUE, Wd("c*k"), AnyV)>>, <<>>),
          ArgsOf(<<ArgI(TRUE, Wd("id"), IntV(5))>>, <<>>),
          ArgsOf(<<ArgI(FALSE, AnyT, ObjV(IdGenO(5, 1)))>>, <<>>), ArgsOf(<<ArgI(FALSE, AnyT, ObjV([k |-> "nil"]))>>, <<>>),
          ArgsOf(<<ArgI(FALSE, AnyT, WordV("wl_callback"))>>, <<>>), ArgsOf(<<ArgI(FALSE, AnyT, WordV("wl_region"))>>, <<>>),
          ArgsOf(<<>>, <<ArgI(FALSE, AnyT, WordV("wl_callback"))>>),
          ArgsOf(<<ArgI(FALSE, AnyT, IntV(-3))>>, <<>>), ArgsOf(<<>>, <<ArgI(FALSE, AnyT, IntV(-3))>>),
          ArgsOf(<<ArgI(TRUE, Wd("id"), AnyV), ArgI(FALSE, AnyT, WordV("wl_data_offer"))>>, <<>>),
          ArgsOf(<<[k |-> "list", pos |-> <<ArgI(FALSE, AnyT, IntV(7)), ArgI(FALSE, AnyT, IntV(3))>>, neg |-> <<>>]>>, <<>>),
          ArgsOf(<<ArgI(FALSE, AnyT, [k |-> "list", pos |-> <<IntV(3), [k |-> "list", pos |-> <<AnyV>>, neg |-> <<IntV(7), ObjV([k |-> "nil"])>>]>>, neg |-> <<>>])>>, <<>>),
          ArgsOf(<<[k |-> "list", pos |-> <<ArgI(TRUE, Wd("id"), AnyV), [k |-> "list", pos |-> <<ArgI(TRUE, Wd("c*k"), AnyV)>>, neg |-> <<ArgI(FALSE, AnyT, IntV(7))>>]>>, neg |-> <<>>]>>, <<>>)}

Pats == {[k |-> "pat", form |-> "bare", conn |-> c, obj |-> o] : c \in ConnP, o \in ObjP}
        \cup {[k |-> "pat", form |-> "full", conn |-> c, obj |-> o, name |-> n, args |-> a] :
                c \in ConnP, o \in ObjP \ {[k |-> "nil"]}, n \in NameP, a \in ArgsP}
SmallPats3 == {Bare(TypeO("wl_callback")), Full(AnyO, Wd("sync")), StarP}
SmallPats == {Bare(TypeO("wl_callback")), Full(AnyO, Wd("sync")), Bare(IdGenO(5, 1)), BareOn("B", AnyO),
              Full(TypeO("wl_surface"), Wd("new")), Full(AnyO, Wd("destroyed")), StarP}

Sel(x) == {j \in 1..N : Sem(x, Hist[j])}


\* the session is resolved once (the initial state); every pair of patterns is one successor
\* (two levels so that the 16 workers share the pairs; the laws are evaluated at phase 2)
Init == h = Final.hist /\ p = StarP /\ q = StarP /\ phase = 0
Next == \/ phase = 0 /\ phase' = 1 /\ h' = h /\ p' \in Pats /\ q' = q
        \/ phase = 1 /\ phase' = 2 /\ h' = h /\ p' = p /\ q' \in QPats

-----------------------------------------------------------------------------
\* the laws C05 states, on the specification
B_LawStarBang == Sel(StarP) = 1..N /\ Sel(BangM) = {}
B_LawSingleton == Sel(ListM(<<p>>, <<>>)) = Sel(p)
B_LawUnionMinus == /\ Sel(ListM(<<p, q>>, <<>>)) = Sel(p) \cup Sel(q)
                 /\ Sel(ListM(<<p>>, <<q>>)) = Sel(p) \ Sel(q)
                 /\ Sel(ListM(<<>>, <<q>>)) = (1..N) \ Sel(q)
\* a bare object: on it, mentioning it, creating it or destroying it
Mentions(o, m) == \/ ObjSem(o, m.target)
                  \/ (m.destroyed.id # 0 /\ ObjSem(o, m.destroyed))
                  \/ \E j \in 1..Len(m.args) : (m.args[j].k = "obj" /\ ObjSem(o, m.args[j].obj))
                                                \/ (m.args[j].k = "nil" /\ ObjSem(o, NilRef(m.args[j])))
B_LawBare == p.form = "bare" => Sel(p) = {j \in 1..N : TextSemC(p.conn, Hist[j].cname) /\ Mentions(p.obj, Hist[j])}
\* .new / .destroyed select the creating / destroying message
B_LawNew == (p.form = "full" /\ p.name = Wd("new") /\ p.args.k = "noargs") =>
             Sel(p) = {j \in 1..N : TextSemC(p.conn, Hist[j].cname) /\
                          \E a \in 1..Len(Hist[j].args) : Hist[j].args[a].k = "obj" /\ Hist[j].args[a].new /\ ObjSem(p.obj, Hist[j].args[a].obj)}
B_LawDestroyed == (p.form = "full" /\ p.name = Wd("destroyed") /\ p.args.k = "noargs") =>
             Sel(p) = {j \in 1..N : TextSemC(p.conn, Hist[j].cname) /\ Hist[j].destroyed.id # 0 /\ ObjSem(p.obj, Hist[j].destroyed)}
\* all parts must hold
B_LawConjunction == p.form = "full" =>
             \A j \in Sel(p) : TextSemC(p.conn, Hist[j].cname)
\* the evident constants are sound
B_LawConst == /\ (KPat(p) = "all" => Sel(p) = 1..N)
            /\ (KPat(p) = "none" => Sel(p) = {})
\* accumulation agrees with the list semantics when nothing is superseded
B_LawRefine == LET f == Refine(Refine(FAll, p), q) IN
             f.c = "acc" => (f.sup = <<>> => {j \in 1..N : SelLo(f, Hist[j])} = {j \in 1..N : SelHi(f, Hist[j])})
\* C12 in terms of what is selected: `filter p` then `filter q` selects what p or q select - unless q is `*` (no restriction) or p
\* was `*` / `!` (q replaces it); `filter p` then `filter ! q` selects what p selects and q does not
SelSet(f) == {j \in 1..N : SelLo(f, Hist[j])}
Definite2(f) == SelSet(f) = {j \in 1..N : SelHi(f, Hist[j])}
B_LawAccumulate ==
  LET f == Refine(Refine(FAll, p), q)
      g == Refine(Refine(FAll, p), ListM(<<>>, <<q>>))
      constp == KPat(p) \in {"all", "none"}
  IN /\ Definite2(f) /\ Definite2(g)
     /\ SelSet(f) = (IF KPat(q) = "all" THEN 1..N ELSE IF constp THEN Sel(q) ELSE Sel(p) \cup Sel(q))
     /\ SelSet(g) = (IF KPat(q) = "all" THEN {} ELSE IF constp THEN (1..N) \ Sel(q) ELSE Sel(p) \ Sel(q))

LawStarBang == phase < 2 \/ B_LawStarBang
LawSingleton == phase < 2 \/ B_LawSingleton
LawUnionMinus == phase < 2 \/ B_LawUnionMinus
LawBare == phase < 2 \/ B_LawBare
LawNew == phase < 2 \/ B_LawNew
LawDestroyed == phase < 2 \/ B_LawDestroyed
LawConjunction == phase < 2 \/ B_LawConjunction
LawConst == phase < 2 \/ B_LawConst
LawRefine == phase < 2 \/ B_LawRefine
LawAccumulate == phase < 2 \/ B_LawAccumulate

EmitScript == PrintT(<<"SCRIPT", ToJson(Script)>>)
Emit == phase' = 1 => (p' = StarP => EmitScript) /\ PrintT(<<"ROW", ToJson([p |-> p', sel |-> SetToSeq({j \in 1..N : Sem(p', h[j])})])>>)
NoPats == {}
=============================================================================
