CONSTANTS
  Dict <- MCDict
  Proto <- MiniProto
  Addrs <- TwoAddrs
  Threads = {1, 2}
  MaxLen = 5
  GCmds <- GCmdsAll
  Brk0 <- BreakSync
INIT Init
NEXT Next
VIEW View
INVARIANT InvGState
PROPERTY PropGStep
CHECK_DEADLOCK FALSE
