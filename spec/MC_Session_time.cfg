CONSTANTS
  Dict <- MCDict
  Proto <- MiniProto
  Tags = {""}
  CIds = {2}
  SIds <- NoIds
  MaxLen = 5
  MaxGen = 2
  Gaps = {1, 999999, 1000000, 1000001, 2500000}
  Cmds <- NoCmds
  Junk <- NoJunk
  Filter0 <- FilterCb
  Show = TRUE
INIT Init
NEXT Next
VIEW View
INVARIANT InvTables
INVARIANT InvNames
INVARIANT InvOneOpen
INVARIANT InvRecorded
INVARIANT InvMentions
INVARIANT InvClosed
INVARIANT InvResolved
INVARIANT InvDestroyed
INVARIANT InvLife
INVARIANT InvNoGhosts
INVARIANT InvSolo
PROPERTY PropIsolation
PROPERTY PropAppendOnly
PROPERTY PropNoResurrect
PROPERTY PropLifeEnds
PROPERTY PropLatest
PROPERTY PropCommands
PROPERTY PropListReadOnly
PROPERTY PropAnnounce
PROPERTY PropOneItemPerLine
PROPERTY PropShownIffSelected
PROPERTY PropSeparator
CHECK_DEADLOCK FALSE
