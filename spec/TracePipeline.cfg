INIT Init
NEXT Next
INVARIANT Check
CHECK_DEADLOCK FALSE
