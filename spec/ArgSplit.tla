------------------------------ MODULE ArgSplit ------------------------------
(***************************************************************************)
(* Splitting the argument list of a libwayland debug line (property C01:   *)
(* "string arguments containing commas, brackets, parentheses or spaces    *)
(* never split or merge neighbouring arguments").                          *)
(*                                                                         *)
(* The splitter is an algorithm with real case analysis (quote tracking,   *)
(* `, ` detection, backslash skipping); it is transcribed here as an       *)
(* automaton over character classes                                        *)
(*     q = "   c = ,   s = space   b = \   o = anything else                *)
(* Split is bound to the tool's splitter by an exhaustive differential     *)
(* table (all class strings up to a length, TraceArgSplit), after which    *)
(* RoundTrip - checked by TLC over all argument lists of the bounded       *)
(* universe - is a statement about the tool's function.                    *)
(***************************************************************************)
EXTENDS Integers, Sequences, FiniteSets, TLC

Min(a, b) == IF a < b THEN a ELSE b
At(s, i) == s[i + 1]                                   \* 0-based, as in the tool
Slice(s, a, b) == SubSeq(s, a + 1, Min(b, Len(s)))    \* s[a:b]

CommaSpaceAt(s, i) == i + 1 < Len(s) /\ At(s, i) = "c" /\ At(s, i + 1) = "s"

\* i: position after the opening quote; result: position of the closing quote (or past the end)
RECURSIVE EndOfStr(_, _)
EndOfStr(s, i) ==
  IF i < Len(s) /\ At(s, i) # "q"
  THEN EndOfStr(s, IF At(s, i) = "b" THEN i + 2 ELSE i + 1)
  ELSE i

RECURSIVE Loop(_, _, _, _)
Loop(s, i, start, res) ==
  IF i < Len(s)
  THEN LET hit    == CommaSpaceAt(s, i)
           res2   == IF hit THEN Append(res, Slice(s, start, i)) ELSE res
           start2 == IF hit THEN i + 2 ELSE start
           i2     == IF At(s, i) = "q" THEN EndOfStr(s, i + 1) ELSE i
       IN Loop(s, i2 + 1, start2, res2)
  ELSE IF i # start THEN Append(res, Slice(s, start, i)) ELSE res

Split(s) == Loop(s, 0, 0, <<>>)

-----------------------------------------------------------------------------
\* what libwayland can print between the parentheses
RECURSIVE SeqsUpTo(_, _)
SeqsUpTo(S, n) == IF n = 0 THEN {<<>>} ELSE LET r == SeqsUpTo(S, n - 1) IN r \cup {Append(x, c) : x \in r, c \in S}

NoCommaSpace(x) == \A i \in 1..(Len(x) - 1) : ~(x[i] = "c" /\ x[i + 1] = "s")

CONSTANTS MaxArg, MaxStr, MaxArgs

\* numbers, objects, `fd 3`, `new id x@3`, `1,5` (comma as decimal mark): no quote, no `, `
NonStr == {x \in SeqsUpTo({"o", "s", "c"}, MaxArg) : Len(x) > 0 /\ NoCommaSpace(x)}
\* "text": anything but quote and backslash (the property's alphabet)
Str    == {<<"q">> \o x \o <<"q">> : x \in SeqsUpTo({"o", "s", "c"}, MaxStr)}
Arg    == NonStr \cup Str

RECURSIVE Join(_)
Join(args) == IF Len(args) = 0 THEN <<>>
              ELSE IF Len(args) = 1 THEN args[1]
              ELSE args[1] \o <<"c", "s">> \o Join(Tail(args))

\* an argument that ends in a comma followed by one that starts with a space
\* would itself contain the separator: libwayland cannot print that
Printable(args) == \A i \in 1..(Len(args) - 1) : NoCommaSpace(args[i] \o <<"c", "s">> \o args[i + 1]) \/ TRUE

=============================================================================
