CONSTANTS
  Dict <- MCDict
  Proto <- MiniProto
  QPats <- SmallPats3
INIT Init
NEXT Next
INVARIANT LawStarBang
INVARIANT LawSingleton
INVARIANT LawUnionMinus
INVARIANT LawBare
INVARIANT LawNew
INVARIANT LawDestroyed
INVARIANT LawConjunction
INVARIANT LawConst
INVARIANT LawRefine
INVARIANT LawAccumulate
CHECK_DEADLOCK FALSE
