CONSTANT MaxN = 2000
INIT Init
NEXT Next
INVARIANT RoundTrip
INVARIANT Increasing
INVARIANT NoGaps
INVARIANT OnlyLetters
INVARIANT First
CHECK_DEADLOCK FALSE
