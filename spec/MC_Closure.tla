----------------------------- MODULE MC_Closure -----------------------------
(***************************************************************************)
(* The signatures C09 quantifies over, enumerated: every sequence of        *)
(* argument tokens (a type code, optionally marked `?`) up to MaxArgs,      *)
(* with and without a version prefix; written for the harness, which fills *)
(* in values of every class.  On the specification itself: the number of   *)
(* reported arguments equals the number of type codes whatever digits and  *)
(* markers the signature holds, and Extract agrees with Printed.           *)
(***************************************************************************)
EXTENDS Closure, TLC, Json, IOUtils, SequencesExt

CONSTANT MaxArgs
Tokens == {<<c>> : c \in Codes} \cup {<<"?", c>> : c \in {"s", "o", "a", "n"}}
VersionPrefixes == {<<>>, <<"2">>, <<"1", "3">>}
RECURSIVE Flat(_)
Flat(ts) == IF ts = <<>> THEN <<>> ELSE Head(ts) \o Flat(Tail(ts))
TokSeqs == UNION {[1..n -> Tokens] : n \in 0..MaxArgs}
Sigs == {p \o Flat(t) : p \in VersionPrefixes, t \in TokSeqs}

\* a canonical closure for a signature (values irrelevant to the laws below)
ValOf(code) ==
  CASE code \in {"i", "u", "h"} -> [v |-> "5"]
    [] code = "f" -> [raw |-> 384]
    [] code = "s" -> [null |-> FALSE, s |-> "x"]
    [] code = "o" -> [null |-> FALSE, id |-> "7", otype |-> "zz_a"]
    [] code = "n" -> [id |-> "9"]
    [] code = "a" -> [vals |-> <<"1", "2">>, extra |-> 3]
Canon(sig) == LET cs == ArgCodes(sig) IN
  [name |-> "m", sig |-> sig, types |-> [i \in 1..Len(cs) |-> IF cs[i] \in {"o", "n"} THEN "zz_a" ELSE ""],
   sender |-> "3", kind |-> 1, ttype |-> "zz_t", args |-> [i \in 1..Len(cs) |-> ValOf(cs[i])]]

VARIABLE sig
Init == sig \in Sigs
Next == UNCHANGED sig
\* (the type codes are spelled out here, independently of Closure!Codes)
TypeCodes == {"i", "u", "f", "s", "o", "n", "a", "h"}
OnePerCode == Len(Extract(Canon(sig)).args) = Cardinality({i \in 1..Len(sig) : sig[i] \in TypeCodes})
InOrder == \A i \in 1..Len(ArgCodes(sig)) :
              LET code == ArgCodes(sig)[i]  a == Extract(Canon(sig)).args[i] IN
              (code \in {"i", "u"} => a.k = "int") /\ (code = "f" => a.k = "float") /\ (code = "s" => a.k = "str")
              /\ (code \in {"o", "n"} => a.k = "obj" /\ a.new = (code = "n")) /\ (code = "a" => a.k = "array") /\ (code = "h" => a.k = "fd")
Agrees == Agreement(Canon(sig))
WriteSigs == JsonSerialize(IOEnv.CASES_FILE, SetToSeq(Sigs))
InitW == sig = <<>> /\ WriteSigs
=============================================================================
