------------------------------ MODULE LetterId ------------------------------
(***************************************************************************)
(* Incarnation / connection letters: bijective base 26 = shortlex order    *)
(* a, b, ..., z, aa, ab, ...  (property C14).                              *)
(***************************************************************************)
EXTENDS Integers, Sequences

Alphabet == <<"a","b","c","d","e","f","g","h","i","j","k","l","m",
              "n","o","p","q","r","s","t","u","v","w","x","y","z">>
Capitals == <<"A","B","C","D","E","F","G","H","I","J","K","L","M",
              "N","O","P","Q","R","S","T","U","V","W","X","Y","Z">>

RECURSIVE ToLettersIn(_, _)
ToLettersIn(alpha, n) ==
  IF n < 26 THEN <<alpha[n + 1]>>
  ELSE ToLettersIn(alpha, (n \div 26) - 1) \o <<alpha[(n % 26) + 1]>>

ToLetters(n) == ToLettersIn(Alphabet, n)   \* object incarnations
ToCaps(n)    == ToLettersIn(Capitals, n)   \* connection names

IsLetter(c) == \E i \in 1..26 : Alphabet[i] = c \/ Capitals[i] = c
LetterIndex(c) == CHOOSE i \in 0..25 : Alphabet[i + 1] = c \/ Capitals[i + 1] = c

RECURSIVE FromLettersAcc(_, _)
FromLettersAcc(acc, s) ==
  IF s = <<>> THEN acc
  ELSE FromLettersAcc((acc + 1) * 26 + LetterIndex(Head(s)), Tail(s))

\* position of a non-empty letter string (either case)
FromLetters(s) == FromLettersAcc(-1, s)

\* shortlex order on letter strings
RECURSIVE LexLess(_, _)
LexLess(a, b) ==
  IF a = <<>> THEN b # <<>>
  ELSE IF b = <<>> THEN FALSE
  ELSE IF Head(a) = Head(b) THEN LexLess(Tail(a), Tail(b))
  ELSE LetterIndex(Head(a)) < LetterIndex(Head(b))
ShortLexLess(a, b) == Len(a) < Len(b) \/ (Len(a) = Len(b) /\ LexLess(a, b))
=============================================================================
