------------------------------ MODULE Protocol ------------------------------
(***************************************************************************)
(* What the protocol descriptions say about a message's arguments          *)
(* (property C07): names, the interface declared for an object argument,   *)
(* and enum labels.                                                        *)
(*                                                                         *)
(* Proto : interface name ->                                               *)
(*    [version, msgs : message name -> Seq([name, type, iface, eiface,     *)
(*                                          ename]),                       *)
(*              enums : enum name -> [bitfield, entries : Seq([name,       *)
(*                                                         value])]]       *)
(* eiface/ename are the two halves of the enum attribute ("" = none;       *)
(* eiface "" = the message's own interface).  Integers are 32-bit two's    *)
(* complement (TLC integers are 32 bit): 0xffffffff is -1.                 *)
(***************************************************************************)
EXTENDS Integers, Sequences, Bitwise

CONSTANT Proto

KnownIface(i) == i \in DOMAIN Proto
Exempt(i, m)  == i = "wl_registry" /\ m = "bind"   \* the printed arguments differ from the declared ones

\* "none": shown undecorated; "ok": decorated; "error": the description
\* contradicts the message (unknown message / too many arguments)
ArgStatus(i, m, k) ==
  IF i = "" \/ Exempt(i, m) \/ ~KnownIface(i) THEN "none"
  ELSE IF m \notin DOMAIN Proto[i].msgs THEN "error"
  ELSE IF k > Len(Proto[i].msgs[m]) THEN "error"
  ELSE "ok"

ArgDesc(i, m, k) == Proto[i].msgs[m][k]

ArgName(i, m, k)  == IF ArgStatus(i, m, k) = "ok" THEN ArgDesc(i, m, k).name ELSE ""
NilIface(i, m, k) == IF ArgStatus(i, m, k) = "ok" THEN ArgDesc(i, m, k).iface ELSE ""

Lo16(v) == v % 65536
Hi16(v) == (v \div 65536) % 65536
Intersects(a, b) == (Lo16(a) & Lo16(b)) # 0 \/ (Hi16(a) & Hi16(b)) # 0

EnumLabels(i, m, k, v) ==
  IF ArgStatus(i, m, k) # "ok" THEN <<>>
  ELSE LET d  == ArgDesc(i, m, k)
           ei == IF d.eiface = "" THEN i ELSE d.eiface
       IN IF d.ename = "" \/ ~KnownIface(ei) THEN <<>>
          ELSE IF d.ename \notin DOMAIN Proto[ei].enums THEN <<>>
          ELSE LET e   == Proto[ei].enums[d.ename]
                   hit == SelectSeq(e.entries,
                             LAMBDA x : IF e.bitfield THEN Intersects(x.value, v) ELSE x.value = v)
                   names == [j \in 1..Len(hit) |-> hit[j].name]
               IN IF Len(hit) > 0 THEN names
                  ELSE IF e.bitfield THEN <<"(none)">> ELSE <<"INVALID ENUM VALUE">>

-----------------------------------------------------------------------------
\* Loading descriptions: the highest version of an interface wins whatever
\* the order (a description is [name, version, body]).
LoadOne(tbl, d) ==
  IF d.name \in DOMAIN tbl /\ tbl[d.name].version >= d.version THEN tbl
  ELSE [n \in DOMAIN tbl \cup {d.name} |-> IF n = d.name THEN d ELSE tbl[n]]
=============================================================================
