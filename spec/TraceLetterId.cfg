INIT Init
NEXT Next
INVARIANT Agree
CHECK_DEADLOCK FALSE
