CONSTANT MaxArgs = 2
INIT Init
NEXT Next
CHECK_DEADLOCK FALSE
