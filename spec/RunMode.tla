------------------------------- MODULE RunMode -------------------------------
(***************************************************************************)
(* C13: run mode.  wayland-debug starts the program with its standard      *)
(* error connected to a pipe, reads the pipe line by line on the main      *)
(* thread while a helper thread waits for the program, and returns the     *)
(* program's exit status after everything was read.                        *)
(*                                                                         *)
(* Processes (each action is one atomic step of the real system):          *)
(*   Child   writes the stream in chunks (any chunking, mid-line splits,   *)
(*           a last line without newline), possibly closes its standard    *)
(*           error while it keeps running, then exits with a status        *)
(*   Waiter  the helper thread: notices the exit, stores the status, then  *)
(*           closes the tool's own write end of the pipe                   *)
(*   Reader  moves bytes from the pipe into its buffer, delivers a line at *)
(*           every newline; at end of file (pipe empty and no write end    *)
(*           open) delivers the unterminated rest and finishes             *)
(*   Main    after the reader finished: joins the helper thread, prompts,  *)
(*           returns the stored status                                     *)
(* Bytes are opaque values; NL is the newline.                              *)
(***************************************************************************)
EXTENDS StreamLines, FiniteSets, TLC

CONSTANTS Stream,      \* the bytes the program writes to stderr, e.g. <<"x","x",NL,"x",NL>>
          Statuses     \* exit statuses on offer

NoStatus == -1
Initial  == 99         \* what the tool holds before the helper thread has stored anything

VARIABLES written,     \* bytes of Stream the child has written so far (a prefix length)
          pipe,        \* bytes in the pipe
          child,       \* "running" | "exited"
          status,      \* the status the child exits with
          childEnd,    \* the child's write end is open
          toolEnd,     \* the tool's own write end is open
          stored,      \* what the helper thread stored
          waiter,      \* "waiting" | "noticed" | "stored" | "closed"
          rbuf, delivered, readerDone, joined, ret
vars == <<written, pipe, child, status, childEnd, toolEnd, stored, waiter, rbuf, delivered, readerDone, joined, ret>>

Init == /\ written = 0 /\ pipe = <<>> /\ child = "running" /\ status \in Statuses
        /\ childEnd = TRUE /\ toolEnd = TRUE /\ stored = Initial /\ waiter = "waiting"
        /\ rbuf = <<>> /\ delivered = <<>> /\ readerDone = FALSE /\ joined = FALSE /\ ret = NoStatus

\* the child writes the next k bytes in one write
ChildWrite == /\ child = "running" /\ written < Len(Stream)
              /\ \E k \in 1..(Len(Stream) - written) :
                    /\ pipe' = pipe \o SubSeq(Stream, written + 1, written + k)
                    /\ written' = written + k
              /\ UNCHANGED <<child, status, childEnd, toolEnd, stored, waiter, rbuf, delivered, readerDone, joined, ret>>
\* a program may close (or redirect) its standard error and keep running: the pipe then has no writer but the tool itself,
\* and the program's exit - not the end of its output - is what ends the session
ChildCloseErr == /\ child = "running" /\ written = Len(Stream) /\ childEnd
                 /\ childEnd' = FALSE
                 /\ UNCHANGED <<written, pipe, child, status, toolEnd, stored, waiter, rbuf, delivered, readerDone, joined, ret>>
ChildExit  == /\ child = "running" /\ written = Len(Stream)
              /\ child' = "exited" /\ childEnd' = FALSE
              /\ UNCHANGED <<written, pipe, status, toolEnd, stored, waiter, rbuf, delivered, readerDone, joined, ret>>

WaiterNotice == /\ waiter = "waiting" /\ child = "exited" /\ waiter' = "noticed"
                /\ UNCHANGED <<written, pipe, child, status, childEnd, toolEnd, stored, rbuf, delivered, readerDone, joined, ret>>
WaiterStore  == /\ waiter = "noticed" /\ stored' = status /\ waiter' = "stored"
                /\ UNCHANGED <<written, pipe, child, status, childEnd, toolEnd, rbuf, delivered, readerDone, joined, ret>>
WaiterClose  == /\ waiter = "stored" /\ toolEnd' = FALSE /\ waiter' = "closed"
                /\ UNCHANGED <<written, pipe, child, status, childEnd, stored, rbuf, delivered, readerDone, joined, ret>>

\* the reader takes any non-empty prefix of the pipe (a read returns what is there, or part of it)
ReaderRead == /\ ~readerDone /\ pipe # <<>>
              /\ \E k \in 1..Len(pipe) :
                    LET f == Feed(rbuf, delivered, SubSeq(pipe, 1, k)) IN
                    /\ rbuf' = f.buf /\ delivered' = f.out
                    /\ pipe' = SubSeq(pipe, k + 1, Len(pipe))
              /\ UNCHANGED <<written, child, status, childEnd, toolEnd, stored, waiter, readerDone, joined, ret>>
ReaderEof  == /\ ~readerDone /\ pipe = <<>> /\ ~childEnd /\ ~toolEnd
              /\ delivered' = IF rbuf = <<>> THEN delivered ELSE Append(delivered, rbuf)
              /\ rbuf' = <<>> /\ readerDone' = TRUE
              /\ UNCHANGED <<written, pipe, child, status, childEnd, toolEnd, stored, waiter, joined, ret>>

MainJoin   == /\ readerDone /\ ~joined /\ waiter = "closed" /\ joined' = TRUE
              /\ UNCHANGED <<written, pipe, child, status, childEnd, toolEnd, stored, waiter, rbuf, delivered, readerDone, ret>>
MainReturn == /\ joined /\ ret = NoStatus /\ ret' = stored
              /\ UNCHANGED <<written, pipe, child, status, childEnd, toolEnd, stored, waiter, rbuf, delivered, readerDone, joined>>

Next == ChildWrite \/ ChildCloseErr \/ ChildExit \/ WaiterNotice \/ WaiterStore \/ WaiterClose \/ ReaderRead \/ ReaderEof \/ MainJoin \/ MainReturn
Spec == Init /\ [][Next]_vars /\ WF_vars(Next)

-----------------------------------------------------------------------------

\* every line is delivered, once, in order, whatever the chunking and scheduling
Delivered        == readerDone => delivered = Lines(Stream)
DeliveredPrefix  == \E n \in 0..Len(Lines(Stream)) : delivered = SubSeq(Lines(Stream), 1, n)
\* all output is processed before the status is returned, even if the program exits at once
AllBeforeStatus  == ret # NoStatus => (child = "exited" /\ pipe = <<>> /\ readerDone /\ delivered = Lines(Stream))
StatusPropagated == ret # NoStatus => ret = status
NeverInitial     == ret # NoStatus => (ret = Initial => status = Initial)
Terminates       == <>(ret # NoStatus)
=============================================================================
