------------------------------- MODULE MCBase -------------------------------
(***************************************************************************)
(* Shared by the bounded models: a miniature protocol table (a subset of   *)
(* the shipped core protocol), constructors for abstract events and        *)
(* matcher trees, and the command sets the configurations choose from.     *)
(***************************************************************************)
EXTENDS Session, MCWords

MiniProto ==
  [wl_display |-> [version |-> 1, enums |-> [none |-> [bitfield |-> FALSE, entries |-> <<>>]],
       msgs |-> [sync |-> <<[name |-> "callback", type |-> "new_id", iface |-> "wl_callback", eiface |-> "", ename |-> ""]>>,
                 get_registry |-> <<[name |-> "registry", type |-> "new_id", iface |-> "wl_registry", eiface |-> "", ename |-> ""]>>,
                 delete_id |-> <<[name |-> "id", type |-> "uint", iface |-> "", eiface |-> "", ename |-> ""]>>]],
   wl_registry |-> [version |-> 1, enums |-> [none |-> [bitfield |-> FALSE, entries |-> <<>>]],
       msgs |-> [bind |-> <<>>]],
   wl_callback |-> [version |-> 1, enums |-> [none |-> [bitfield |-> FALSE, entries |-> <<>>]],
       msgs |-> [done |-> <<[name |-> "callback_data", type |-> "uint", iface |-> "", eiface |-> "", ename |-> ""]>>]],
   wl_compositor |-> [version |-> 6, enums |-> [none |-> [bitfield |-> FALSE, entries |-> <<>>]],
       msgs |-> [create_surface |-> <<[name |-> "id", type |-> "new_id", iface |-> "wl_surface", eiface |-> "", ename |-> ""]>>]],
   wl_surface |-> [version |-> 6, enums |-> [none |-> [bitfield |-> FALSE, entries |-> <<>>]],
       msgs |-> [frame |-> <<[name |-> "callback", type |-> "new_id", iface |-> "wl_callback", eiface |-> "", ename |-> ""]>>,
                 commit |-> <<>>,
                 set_input_region |-> <<[name |-> "region", type |-> "object", iface |-> "wl_region", eiface |-> "", ename |-> ""]>>,
                 enter |-> <<[name |-> "output", type |-> "object", iface |-> "wl_output", eiface |-> "", ename |-> ""]>>]],
   wl_data_device |-> [version |-> 3, enums |-> [none |-> [bitfield |-> FALSE, entries |-> <<>>]],
       msgs |-> [data_offer |-> <<[name |-> "id", type |-> "new_id", iface |-> "wl_data_offer", eiface |-> "", ename |-> ""]>>,
                 selection |-> <<[name |-> "id", type |-> "object", iface |-> "wl_data_offer", eiface |-> "", ename |-> ""]>>]],
   wl_data_offer |-> [version |-> 3, enums |-> [none |-> [bitfield |-> FALSE, entries |-> <<>>]],
       msgs |-> [finish |-> <<>>, destroy |-> <<>>,
                 receive |-> <<[name |-> "mime_type", type |-> "string", iface |-> "", eiface |-> "", ename |-> ""],
                               [name |-> "fd", type |-> "fd", iface |-> "", eiface |-> "", ename |-> ""]>>]]]

SrvIds1 == {-16777216}
SrvIds2 == {-16777216, -1}
NoCmds == {}
NoJunk == {}
NoIds  == {}

\* matcher trees for the command sets
AnyT == [k |-> "any"]
Wd(w) == [k |-> "w", p |-> C(w)]
Bare(o) == [k |-> "pat", form |-> "bare", conn |-> AnyT, obj |-> o]
BareOn(c, o) == [k |-> "pat", form |-> "bare", conn |-> Wd(c), obj |-> o]
Full(o, n) == [k |-> "pat", form |-> "full", conn |-> AnyT, obj |-> o, name |-> n, args |-> [k |-> "noargs"]]
TypeO(w) == [k |-> "type", t |-> Wd(w)]
IdO(i) == [k |-> "id", id |-> i]
IdGenO(i, g) == [k |-> "idgen", id |-> i, gen |-> g]
AnyO == [k |-> "any"]
StarP == Bare(AnyO)
ListM(pos, neg) == [k |-> "list", pos |-> pos, neg |-> neg]
BangM == ListM(<<>>, <<>>)

CmdFilter(ast) == [e |-> "cmd", c |-> "filter", hasarg |-> TRUE, ok |-> TRUE, ast |-> ast]
CmdBreak(ast)  == [e |-> "cmd", c |-> "break", hasarg |-> TRUE, ok |-> TRUE, ast |-> ast]
CmdBadFilter   == [e |-> "cmd", c |-> "filter", hasarg |-> TRUE, ok |-> FALSE, bad |-> "a.b.c"]
CmdList(ast, cap) == [e |-> "cmd", c |-> "list", hasm |-> TRUE, ok |-> TRUE, ast |-> ast, cap |-> cap, caperr |-> FALSE]
CmdListCur(cap)   == [e |-> "cmd", c |-> "list", hasm |-> FALSE, ok |-> TRUE, cap |-> cap, caperr |-> FALSE]
CmdConn(a) == [e |-> "cmd", c |-> "conn", arg |-> a]

\* C06: filter and selection changes at every point of the history
CmdsLive == {CmdFilter(Bare(TypeO("wl_callback"))), CmdFilter(Full(AnyO, Wd("sync"))),
             CmdFilter(ListM(<<>>, <<Bare(TypeO("wl_registry"))>>)), CmdFilter(BangM), CmdFilter(StarP),
             CmdConn("A"), CmdConn("B"), CmdConn("all")}
\* C11: queries over the recorded history
CmdsList == {CmdList(StarP, -1), CmdList(StarP, 1), CmdList(StarP, 2), CmdList(Bare(TypeO("wl_callback")), -1),
             CmdList(Bare(TypeO("wl_callback")), 1), CmdList(Full(AnyO, Wd("new")), 0),
             CmdList(BareOn("B", IdGenO(2, 0)), -1), CmdListCur(-1), CmdListCur(1),
             CmdConn("B"), CmdConn("all"), CmdFilter(Full(AnyO, Wd("sync")))}
\* C12: accumulation of filter / breakpoint commands
AtomA == Bare(TypeO("wl_callback"))
AtomB == Full(AnyO, Wd("sync"))
AtomC == Bare(IdGenO(2, 0))
CmdsJoin == {CmdFilter(AtomA), CmdFilter(AtomB), CmdFilter(ListM(<<AtomC>>, <<AtomA>>)), CmdFilter(ListM(<<>>, <<AtomB>>)),
             CmdFilter(StarP), CmdFilter(BangM), CmdBadFilter,
             CmdBreak(AtomA), CmdBreak(ListM(<<>>, <<AtomC>>)), CmdBreak(StarP), CmdBreak(BangM)}
FilterCb == Bare(TypeO("wl_callback"))

Msg(ty, i, name, sent, args) == [ttype |-> ty, tid |-> i, name |-> name, sent |-> sent, args |-> args]
New(ty, i) == [k |-> "new", type |-> ty, id |-> i]
ObjA(ty, i) == [k |-> "obj", type |-> ty, id |-> i]
NilA == [k |-> "nil", type |-> ""]
IntA(v) == [k |-> "int", v |-> v]
StrA(s) == [k |-> "str", s |-> s]
FdA(v) == [k |-> "fd", v |-> v]

=============================================================================
