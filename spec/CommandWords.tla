---------------------------- MODULE CommandWords ----------------------------
(***************************************************************************)
(* How a typed command word is understood (C10: "any other command";      *)
(* C18: "arbitrary text typed as a command produces output or an error").  *)
(* A word names the one command it is a prefix of; GDB-style spellings     *)
(* `wl X`, `w X`, `wlX` are the command X; a word that is a prefix of no   *)
(* command is an error, of several an ambiguity (with the present command  *)
(* names every first letter is unique, which Unambiguous checks).          *)
(***************************************************************************)
EXTENDS Integers, Sequences, FiniteSets, TLC

Names == {<<"h","e","l","p">>, <<"l","i","s","t">>, <<"f","i","l","t","e","r">>, <<"b","r","e","a","k","p","o","i","n","t">>,
          <<"m","a","t","c","h","e","r">>, <<"c","o","n","n","e","c","t","i","o","n">>, <<"r","e","s","u","m","e">>, <<"q","u","i","t">>}

IsPrefix(p, w) == Len(p) <= Len(w) /\ SubSeq(w, 1, Len(p)) = p
Candidates(word) == {n \in Names : IsPrefix(word, n)}
Resolve(word) == IF Cardinality(Candidates(word)) = 1 THEN CHOOSE n \in Candidates(word) : TRUE
                 ELSE IF Candidates(word) = {} THEN <<"!", "u", "n", "k", "n", "o", "w", "n">> ELSE <<"!", "a", "m", "b">>

Prefixes(n) == {SubSeq(n, 1, k) : k \in 1..Len(n)}
\* every non-empty prefix of every command name names that command
Unambiguous == \A n \in Names : \A p \in Prefixes(n) : Resolve(p) = n
ASSUME Unambiguous
=============================================================================
