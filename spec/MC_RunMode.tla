----------------------------- MODULE MC_RunMode -----------------------------
EXTENDS RunMode
StreamA == <<"x", "x", "N", "x", "x", "N">>      \* "ab\ncd\n"
StreamB == <<"x", "x", "N", "x", "x">>           \* "ab\ncd": last line without newline
StreamC == <<"N", "x", "N">>                     \* starts with an empty line
StreamD == <<>>                                  \* the program writes nothing

\* Witnesses against vacuity (see MC_Session / harness/witness.py): Never_X must be reported violated
Reach_ErrClosedEarly  == child = "running" /\ ~childEnd                       \* the program closed its stderr and lingers
Reach_ExitBeforeRead  == child = "exited" /\ pipe # <<>>                      \* it exits before its output was read
Reach_StatusBeforeEof == waiter = "stored" /\ ~readerDone                     \* the status is known while reading goes on
Reach_Unterminated    == ~readerDone /\ rbuf # <<>> /\ pipe = <<>> /\ written = Len(Stream)   \* a rest without newline awaits end of file
Reach_MidLineSplit    == rbuf # <<>> /\ pipe # <<>> /\ Head(pipe) # NL         \* a line arrives in two reads
Reach_Returned99      == ret = 99                                            \* the status that equals the tool's initial value
Never_ErrClosedEarly == ~Reach_ErrClosedEarly
Never_ExitBeforeRead == ~Reach_ExitBeforeRead
Never_StatusBeforeEof == ~Reach_StatusBeforeEof
Never_Unterminated == ~Reach_Unterminated
Never_MidLineSplit == ~Reach_MidLineSplit
Never_Returned99 == ~Reach_Returned99
=============================================================================
