----------------------------- MODULE MC_RunMode -----------------------------
EXTENDS RunMode
StreamA == <<"x", "x", "N", "x", "x", "N">>      \* "ab\ncd\n"
StreamB == <<"x", "x", "N", "x", "x">>           \* "ab\ncd": last line without newline
StreamC == <<"N", "x", "N">>                     \* starts with an empty line
StreamD == <<>>                                  \* the program writes nothing
=============================================================================
