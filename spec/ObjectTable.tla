----------------------------- MODULE ObjectTable -----------------------------
(***************************************************************************)
(* One connection's object table and the resolution of one message against *)
(* it (properties C02, C03; the arguments' decoration is Protocol's, C07). *)
(*                                                                         *)
(* db : id -> Seq([type, alive, ct, dt]); index - 1 = incarnation.         *)
(* Ids are 32-bit two's complement: the server range 0xff000000..          *)
(* 0xffffffff is -16777216..-1.  Times are integer microsecond ticks       *)
(* relative to the first message; NoTime = no such time.                   *)
(*                                                                         *)
(* Resolve mirrors the order the tool uses inside one message: target,     *)
(* registry-bind typing, delete_id, then arguments left to right (a new-id *)
(* argument creates before later arguments are looked up).  Everything the *)
(* tool knowingly does with ill-formed input is present as an explicit     *)
(* outcome instead of being idealised away:                                *)
(*   "ok"    resolved (possibly with unresolved mentions)                  *)
(*   "error" the table or the protocol description contradicts the line:   *)
(*           the line is passed through as text, effects up to that point  *)
(*           stay (deviation)                                              *)
(*   "stop"  an internal assertion fails: the tool stops decoding          *)
(*           (deviation)                                                   *)
(***************************************************************************)
EXTENDS Protocol, FiniteSets, TLC

NoTime == -2000000000
NoObj  == [id |-> 0, gen |-> 0, type |-> "", res |-> FALSE]

IsServerId(i) == i < 0 /\ i >= -16777216
ValidNewId(i) == i > 1 \/ i < 0

EmptyDb == 1 :> <<[type |-> "wl_display", alive |-> TRUE, ct |-> 0, dt |-> NoTime]>>

Has(d, i)    == i \in DOMAIN d
Latest(d, i) == d[i][Len(d[i])]
Ref(d, i)    == [id |-> i, gen |-> Len(d[i]) - 1, type |-> Latest(d, i).type, res |-> TRUE]
Unres(i, ty) == [id |-> i, gen |-> -1, type |-> ty, res |-> FALSE]

\* latest incarnation, provided the type stated on the line does not
\* contradict it
Lookup(d, i, ty) ==
  IF ~Has(d, i) THEN Unres(i, ty)
  ELSE IF ty # "" /\ Latest(d, i).type # "" /\ ty # Latest(d, i).type THEN Unres(i, ty)
  ELSE Ref(d, i)

Kill(d, i, t) == [d EXCEPT ![i] = [@ EXCEPT ![Len(@)] = [@ EXCEPT !.alive = FALSE, !.dt = t]]]

CanCreate(d, i, ty) ==
  /\ ValidNewId(i)
  /\ ty # ""
  /\ (Has(d, i) /\ Latest(d, i).alive) => (IsServerId(i) /\ ~(ty = "wl_registry" /\ i = 2))

NewObj(ty, t) == [type |-> ty, alive |-> TRUE, ct |-> t, dt |-> NoTime]

DoCreate(d, i, ty, t) ==
  IF Has(d, i)
  THEN LET d1 == IF Latest(d, i).alive THEN Kill(d, i, t) ELSE d   \* implicit destruction (server range)
       IN [d1 EXCEPT ![i] = Append(@, NewObj(ty, t))]
  ELSE d @@ (i :> <<NewObj(ty, t)>>)

\* one argument: returns [db, r]
ArgStep(d, ty, mname, t, a, k) ==
  LET nm == ArgName(ty, mname, k) IN
  CASE a.k = "int"   -> [db |-> d, r |-> [k |-> "int", name |-> nm, v |-> a.v,
                                          labels |-> EnumLabels(ty, mname, k, a.v)]]
    [] a.k = "float" -> [db |-> d, r |-> [k |-> "float", name |-> nm, raw |-> a.raw]]
    [] a.k = "str"   -> [db |-> d, r |-> [k |-> "str", name |-> nm, s |-> a.s]]
    [] a.k = "fd"    -> [db |-> d, r |-> [k |-> "fd", name |-> nm, v |-> a.v]]
    [] a.k = "array" -> [db |-> d, r |-> [k |-> "array", name |-> nm]]
    [] a.k = "unknown" -> [db |-> d, r |-> [k |-> "unknown", name |-> nm]]
    [] a.k = "nil"   -> [db |-> d, r |-> [k |-> "nil", name |-> nm,
                                          niltype |-> IF a.type # "" THEN a.type ELSE NilIface(ty, mname, k)]]
    [] a.k = "obj"   -> [db |-> d, r |-> [k |-> "obj", name |-> nm, new |-> FALSE,
                                          obj |-> Lookup(d, a.id, a.type)]]
    [] a.k = "new"   -> LET d2 == IF CanCreate(d, a.id, a.type) THEN DoCreate(d, a.id, a.type, t) ELSE d
                        IN [db |-> d2, r |-> [k |-> "obj", name |-> nm, new |-> TRUE,
                                              obj |-> Lookup(d2, a.id, a.type)]]

RECURSIVE FoldArgs(_, _, _, _, _, _)
FoldArgs(acc, ty, mname, t, args, k) ==
  IF k > Len(args) THEN acc
  ELSE IF ArgStatus(ty, mname, k) = "error" THEN [acc EXCEPT !.oc = "error"]
  ELSE LET s == ArgStep(acc.db, ty, mname, t, args[k], k)
       IN FoldArgs([db |-> s.db, out |-> Append(acc.out, s.r), oc |-> "ok"], ty, mname, t, args, k + 1)

\* wl_registry.bind: the new id takes its interface from the interface-name argument
BindShapeOk(args) == Len(args) = 4 /\ args[2].k = "str" /\ args[4].k \in {"obj", "new"}
BindArgs(args) ==
  IF args[4].type = "" THEN [args EXCEPT ![4] = [@ EXCEPT !.type = args[2].s]] ELSE args
BindTypeOk(args) == args[4].type = "" \/ args[4].type = args[2].s

\* m = [ttype, tid, name, sent, args]; t = relative time; cname = connection name
Resolve(d, cname, m, t) ==
  LET target == Lookup(d, m.tid, m.ttype)
      ty     == target.type
      isBind == ty = "wl_registry" /\ m.name = "bind"
      isDel  == target.res /\ target.id = 1 /\ target.gen = 0 /\ m.name = "delete_id" /\ Len(m.args) > 0
      \* deviation the tool knowingly has: a message whose target object is unknown to the table (the log
      \* started mid-session, or the id is stale) is recorded and shown, but is not tied to its connection:
      \* it is shown without the connection's name and matchers see the connection "unknown"
      blank  == [cname |-> IF target.res THEN cname ELSE <<"u", "n", "k", "n", "o", "w", "n">>,
                 shownc |-> IF target.res THEN cname ELSE <<>>,
                 t |-> t, sent |-> m.sent, target |-> target, name |-> m.name,
                 args |-> <<>>, destroyed |-> NoObj, life |-> NoTime]
  IN
  IF isBind /\ ~(BindShapeOk(m.args) /\ BindTypeOk(m.args)) THEN [db |-> d, rec |-> blank, oc |-> "stop"]
  ELSE IF isDel /\ m.args[1].k # "int" THEN [db |-> d, rec |-> blank, oc |-> "stop"]
  ELSE IF isDel /\ ~Has(d, m.args[1].v) THEN [db |-> d, rec |-> blank, oc |-> "error"]
  ELSE
  LET args1 == IF isBind THEN BindArgs(m.args) ELSE m.args
      did   == IF isDel THEN m.args[1].v ELSE 0
      dobj  == IF isDel THEN Ref(d, did) ELSE NoObj
      life  == IF isDel /\ Latest(d, did).ct # NoTime THEN t - Latest(d, did).ct ELSE NoTime
      d1    == IF isDel THEN Kill(d, did, t) ELSE d
      f     == FoldArgs([db |-> d1, out |-> <<>>, oc |-> "ok"], ty, m.name, t, args1, 1)
  IN [db |-> f.db,
      rec |-> [blank EXCEPT !.args = f.out, !.destroyed = dobj, !.life = life],
      oc |-> f.oc]

-----------------------------------------------------------------------------
\* Properties of a table (C02 / C03), used as invariants by every module
\* that carries tables.
AtMostOneAlive(d) == \A i \in DOMAIN d : Cardinality({g \in 1..Len(d[i]) : d[i][g].alive}) <= 1
OnlyLatestAlive(d) == \A i \in DOMAIN d : \A g \in 1..Len(d[i]) : d[i][g].alive => g = Len(d[i])
DeadHaveTime(d) == \A i \in DOMAIN d : \A g \in 1..Len(d[i]) : (~d[i][g].alive) <=> (d[i][g].dt # NoTime)
LifeOrdered(d) == \A i \in DOMAIN d : \A g \in 1..Len(d[i]) :
                     /\ d[i][g].dt # NoTime => d[i][g].dt >= d[i][g].ct
                     /\ g > 1 => d[i][g].ct >= d[i][g - 1].ct
TableOk(d) == AtMostOneAlive(d) /\ OnlyLatestAlive(d) /\ DeadHaveTime(d)

\* step properties between two tables of the same connection
NoResurrection(d, e) == \A i \in DOMAIN d : \A g \in 1..Len(d[i]) :
                           /\ i \in DOMAIN e /\ g <= Len(e[i])
                           /\ e[i][g].type = d[i][g].type /\ e[i][g].ct = d[i][g].ct   \* never retyped / re-created
                           /\ (~d[i][g].alive => ~e[i][g].alive /\ e[i][g].dt = d[i][g].dt)

\* every mention in a resolved record names the incarnation that was the
\* latest at that point; since creations only append, the generation of a
\* resolved mention never exceeds the table's final count
MentionsOk(rec, e) ==
  LET ok(x) == x.res => (x.id \in DOMAIN e /\ x.gen >= 0 /\ x.gen < Len(e[x.id]) /\ e[x.id][x.gen + 1].type = x.type)
  IN /\ ok(rec.target)
     /\ (rec.destroyed.id # 0 => ok(rec.destroyed))
     /\ \A j \in 1..Len(rec.args) : rec.args[j].k = "obj" => ok(rec.args[j].obj)
=============================================================================
