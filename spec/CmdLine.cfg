CONSTANT MaxLen = 4
INIT Init
NEXT Next
INVARIANT ForwardedVerbatim
INVARIANT FirstWins
INVARIANT ExactlyOneMode
CHECK_DEADLOCK FALSE
