------------------------------- MODULE Session -------------------------------
(***************************************************************************)
(* The whole log-mode pipeline as one deterministic step function over     *)
(* abstract input events:                                                  *)
(*                                                                         *)
(*   line reader (C08, C18)  ->  connections (C04)  ->  object tables      *)
(*   (C02, C03)  ->  controller: record, filter, breakpoint, commands      *)
(*   (C06, C10-C12, C16)  ->  output items.                                *)
(*                                                                         *)
(* Step(S, ev) returns the successor state and the items the tool must     *)
(* print for that event.  The bounded models (MC_*.tla) choose ev from a   *)
(* small universe and TLC checks the properties over all behaviours; the   *)
(* trace specification (TraceSession.tla) takes ev from an execution of    *)
(* the real tool and compares what the tool did with Step.                 *)
(*                                                                         *)
(* Events                                                                  *)
(*   [e:"msg", tag, t, dy, m:[ttype, tid, name, sent, args]]   a message   *)
(*        line; tag "" = no connection tag; t absolute ticks (us)          *)
(*   [e:"junk", text]                a line that is not a message          *)
(*   [e:"eof"]                       end of input (also: truncation)       *)
(*   [e:"cmd", c, ...]               a user command                        *)
(*   [e:"eval", ast]                 a matcher evaluated on every recorded   *)
(*        message (no effect on the state; judged by Matcher!Sem)          *)
(*   [e:"open", tag, role], [e:"close", tag]   the connection-id interface *)
(*        used directly (GDB mode: libwayland connections come and go)     *)
(***************************************************************************)
EXTENDS ObjectTable, Matcher, LetterId

SECOND == 1000000
\* an absolute time (us) whose value in seconds is a binary fraction: the
\* tool's floating-point subtraction is then exact
IsDy(t) == t % 125000 = 0

RoleOf(m) == IF m.name = "get_registry" THEN (IF m.sent THEN "client" ELSE "server") ELSE "unknown"

NewConn(tag, ord, role) ==
  [tag |-> tag, ord |-> ord, role |-> role, open |-> TRUE, db |-> EmptyDb, n |-> 0, ghosts |-> 0,
   title |-> <<>>, appid |-> <<>>]

\* A connection is given a title by what its client says about itself (shown by the `connection` command, and the
\* application id can be used to select the connection): set_app_id names the application (the title is the last
\* dotted part), set_title only counts while there is no title yet, a layer surface's namespace always counts.
\* Empty strings and arguments of another kind are ignored.
RECURSIVE LastPart(_)
LastPart(cs) == IF \E i \in 1..Len(cs) : cs[i] = "."
                THEN LastPart(SubSeq(cs, (CHOOSE i \in 1..Len(cs) : cs[i] = "." /\ \A j \in 1..(i - 1) : cs[j] # ".") + 1, Len(cs)))
                ELSE cs
StrArg(rec, i) == IF Len(rec.args) >= i /\ rec.args[i].k = "str" THEN CharsOf(rec.args[i].s) ELSE <<>>
Titled(c, rec) ==
  CASE rec.name = "set_app_id" ->
         LET s == StrArg(rec, 1) IN
         IF s = <<>> THEN c
         ELSE [c EXCEPT !.appid = s, !.title = IF LastPart(s) = <<>> THEN @ ELSE LastPart(s)]
    [] rec.name = "set_title" /\ c.title = <<>> ->
         IF StrArg(rec, 1) = <<>> THEN c ELSE [c EXCEPT !.title = StrArg(rec, 1)]
    [] rec.name = "get_layer_surface" ->
         IF StrArg(rec, 5) = <<>> THEN c ELSE [c EXCEPT !.title = StrArg(rec, 5)]
    [] OTHER -> c

\* S.show: pass non-message lines through (FALSE under --supress)
InitState(filter, brk, show) ==
  [conns |-> <<>>, known |-> {}, hist |-> <<>>, hconn |-> <<>>,
   filter |-> filter, brk |-> brk, sel |-> 0,
   hdy |-> <<>>, last |-> NoTime, lastKnown |-> TRUE, lastDy |-> TRUE,
   base |-> NoTime, lastT |-> 0, parsing |-> TRUE, show |-> show,
   paused |-> FALSE, pk |-> TRUE, quit |-> FALSE, eof |-> FALSE]

\* index of the open connection with this tag (0 if none)
OpenIdx(S, tag) ==
  LET c == {k \in 1..Len(S.conns) : S.conns[k].tag = tag /\ S.conns[k].open}
  IN IF c = {} THEN 0 ELSE CHOOSE k \in c : TRUE

ConnName(c) == ToCaps(c.ord)     \* a sequence of characters

Shown(S, k, rec)   == (S.sel = 0 \/ S.sel = k)
SelectedLo(S, k, rec) == Shown(S, k, rec) /\ SelLo(S.filter, rec)
SelectedHi(S, k, rec) == Shown(S, k, rec) /\ SelHi(S.filter, rec)
BreakLo(S, k, rec) == Shown(S, k, rec) /\ SelLo(S.brk, rec)
BreakHi(S, k, rec) == Shown(S, k, rec) /\ SelHi(S.brk, rec)

-----------------------------------------------------------------------------
\* Output items.  may = TRUE: the statement does not settle whether the
\* item appears (superseded alternatives, exactly one second) - the trace
\* specification then accepts both.
ItNew(c)      == [k |-> "new", role |-> c.role, ord |-> c.ord, may |-> FALSE]
ItClosed(c)   == [k |-> "closed", role |-> c.role, ord |-> c.ord, may |-> FALSE]
ItJunk(text)  == [k |-> "junk", text |-> text, may |-> FALSE]
ItErrText     == [k |-> "errtext", may |-> FALSE]
ItCrash       == [k |-> "crash", may |-> FALSE]
ItMsg(h, may) == [k |-> "msg", h |-> h, may |-> may]         \* h: index into hist
ItSep(gap, may) == [k |-> "sep", gap |-> gap, may |-> may]
ItStop(h, may) == [k |-> "stopped", h |-> h, may |-> may]
ItInfo(what)  == [k |-> "info", what |-> what, may |-> FALSE]
ItError(what) == [k |-> "error", what |-> what, may |-> FALSE]
ItCounts(a, b, c) == [k |-> "counts", matched |-> a, didnt |-> b, unchecked |-> c, may |-> FALSE]

\* the items for showing hist[h] (relative time t, float-exact iff dy) after
\* the previously shown message.  A separator is due iff the gap exceeds one
\* second; at exactly one second it is only judged when both times are
\* float-exact; when it is not settled what was shown last it is optional.
ShowItems(S, h, t, dy, may) ==
  LET gap == IF S.last = NoTime THEN 0 ELSE t - S.last
      sep == IF ~S.lastKnown THEN <<ItSep(-1, TRUE)>>
             ELSE IF gap > SECOND THEN <<ItSep(gap, may)>>
             ELSE IF gap = SECOND /\ ~(dy /\ S.lastDy) THEN <<ItSep(gap, TRUE)>>
             ELSE <<>>
  IN sep \o <<ItMsg(h, may)>>

-----------------------------------------------------------------------------
\* A message line.
MsgStep(S, ev) ==
  LET base1 == IF S.base = NoTime THEN ev.t ELSE S.base
      t     == ev.t - base1
      S0    == [S EXCEPT !.base = base1]
      dy    == IsDy(ev.t) /\ IsDy(base1)
  IN
  IF ~S.parsing THEN [S |-> S0, out |-> <<>>, oc |-> "ignored"]
  ELSE
  LET tag    == IF ev.tag = "" THEN "PARSED" ELSE ev.tag
      first  == tag \notin S.known
      conns1 == IF first THEN Append(S.conns, NewConn(tag, Len(S.conns), RoleOf(ev.m))) ELSE S.conns
      S1     == [S0 EXCEPT !.conns = conns1, !.known = @ \cup {tag}, !.lastT = t]
      k      == OpenIdx(S1, tag)
      c      == S1.conns[k]
      r      == Resolve(c.db, ConnName(c), ev.m, t)
      outNew == IF first THEN <<ItNew(conns1[Len(conns1)])>> ELSE <<>>
  IN
  CASE r.oc = "stop" ->
         \* the message was stored by the connection but never reached the controller
         [S |-> [S1 EXCEPT !.conns[k].n = @ + 1, !.conns[k].ghosts = @ + 1, !.parsing = FALSE],
          out |-> outNew \o <<ItCrash>>, oc |-> "stop"]
    [] r.oc = "error" ->
         [S |-> [S1 EXCEPT !.conns[k].db = r.db, !.conns[k].n = @ + 1, !.conns[k].ghosts = @ + 1],
          out |-> outNew \o (IF S.show THEN <<ItErrText>> ELSE <<>>), oc |-> "error"]
    [] r.oc = "ok" ->
         LET h    == Len(S1.hist) + 1
             S2a  == [S1 EXCEPT !.conns[k].db = r.db, !.conns[k].n = @ + 1,
                                !.hist = Append(@, r.rec), !.hconn = Append(@, k), !.hdy = Append(@, dy)]
             S2   == [S2a EXCEPT !.conns[k] = Titled(@, r.rec)]
             lo   == SelectedLo(S2, k, r.rec)
             hi   == SelectedHi(S2, k, r.rec)
             show == IF hi THEN ShowItems(S2, h, t, dy, ~lo) ELSE <<>>
             S3   == IF lo THEN [S2 EXCEPT !.last = t, !.lastKnown = TRUE, !.lastDy = dy]
                     ELSE IF hi THEN [S2 EXCEPT !.lastKnown = FALSE]
                     ELSE S2
             blo  == BreakLo(S2, k, r.rec)
             bhi  == BreakHi(S2, k, r.rec)
             stop == IF bhi THEN <<ItStop(h, ~blo)>> ELSE <<>>
             S4   == IF blo THEN [S3 EXCEPT !.paused = TRUE]
                     ELSE IF bhi THEN [S3 EXCEPT !.pk = FALSE]
                     ELSE S3
         IN [S |-> S4, out |-> outNew \o show \o stop, oc |-> "ok"]

\* The connection-id interface used directly (GDB mode, property C04's
\* open/message/close sequences): open closes a live connection with the same
\* id first and always yields a new connection with the next name and an empty
\* table; close of an unknown or closed id is a no-op.
CloseTag(S, tag) ==
  LET k == OpenIdx(S, tag) IN
  IF k = 0 THEN [S |-> S, out |-> <<>>]
  ELSE [S |-> [S EXCEPT !.conns[k].open = FALSE], out |-> <<ItClosed(S.conns[k])>>]

OpenStep(S, ev) ==
  LET c1 == CloseTag(S, ev.tag)
      nc == NewConn(ev.tag, Len(S.conns), ev.role)
  IN [S |-> [c1.S EXCEPT !.conns = Append(@, nc), !.known = @ \cup {ev.tag}],
      out |-> c1.out \o <<ItNew(nc)>>, oc |-> "open"]

CloseStep(S, ev) ==
  LET c1 == CloseTag(S, ev.tag) IN [S |-> c1.S, out |-> c1.out, oc |-> "close"]

JunkStep(S, ev) ==
  [S |-> S, out |-> IF S.show THEN <<ItJunk(ev.text)>> ELSE <<>>, oc |-> "junk"]

\* end of input: every connection still open is reported closed
EofStep(S, ev) ==
  LET openSet == {k \in 1..Len(S.conns) : S.conns[k].open}
      closed  == [k \in 1..Len(S.conns) |-> [S.conns[k] EXCEPT !.open = FALSE]]
      RECURSIVE Items(_)
      Items(ks) == IF ks = {} THEN <<>>
                   ELSE LET k == CHOOSE x \in ks : \A y \in ks : x <= y
                        IN <<ItClosed(S.conns[k])>> \o Items(ks \ {k})
  IN [S |-> [S EXCEPT !.conns = closed, !.eof = TRUE], out |-> Items(openSet), oc |-> "eof"]

-----------------------------------------------------------------------------
\* Commands.
\* the recorded messages a query looks at: indexes into hist
Source(S) == IF S.sel = 0 THEN [j \in 1..Len(S.hist) |-> j]
             ELSE SelectSeq([j \in 1..Len(S.hist) |-> j], LAMBDA j : S.hconn[j] = S.sel)

\* list: which of the source match (lo / hi band), the last `cap` of them,
\* and the three counts.  Only definite when the matcher is definite on
\* every source message.
ListResult(S, flt, cap) ==
  LET src   == Source(S)
      n     == Len(src)
      def   == \A i \in 1..n : Definite(flt, S.hist[src[i]])
      mset  == {i \in 1..n : SelLo(flt, S.hist[src[i]])}
      capped == cap > 0 /\ Cardinality(mset) >= cap
      \* positions (in src) of the listed messages
      keep  == IF capped
               THEN {i \in mset : Cardinality({j \in mset : j >= i}) <= cap}
               ELSE mset
      first == IF keep = {} THEN n + 1 ELSE CHOOSE i \in keep : \A j \in keep : i <= j
      didnt == IF capped THEN Cardinality({i \in first..n : i \notin mset}) ELSE n - Cardinality(mset)
      unch  == IF capped THEN first - 1 ELSE 0
      listed == SelectSeq([i \in 1..n |-> i], LAMBDA i : i \in keep)
  IN [def |-> def, listed |-> [i \in 1..Len(listed) |-> src[listed[i]]],
      matched |-> Cardinality(keep), didnt |-> didnt, unchecked |-> unch, total |-> n]

\* items of one listing (separators between listed messages only)
RECURSIVE ListItems(_, _, _, _)
ListItems(S, hs, prevT, prevDy) ==
  IF hs = <<>> THEN <<>>
  ELSE LET h == Head(hs)
           t == S.hist[h].t
           gap == IF prevT = NoTime THEN 0 ELSE t - prevT
           sep == IF gap > SECOND THEN <<ItSep(gap, FALSE)>>
                  ELSE IF gap = SECOND /\ ~(prevDy /\ S.hdy[h]) THEN <<ItSep(gap, TRUE)>>
                  ELSE <<>>
       IN sep \o <<ItMsg(h, FALSE)>> \o ListItems(S, Tail(hs), t, S.hdy[h])

\* `connection X`: by name first, then by application id, both regardless of case; the earliest connection wins
LowerOf(ch) == IF \E i \in 1..26 : Capitals[i] = ch THEN Alphabet[CHOOSE i \in 1..26 : Capitals[i] = ch] ELSE ch
LowerSeq(cs) == [i \in 1..Len(cs) |-> LowerOf(cs[i])]
ConnIdxByName(S, chars) ==
  LET byName == {k \in 1..Len(S.conns) : LowerSeq(ConnName(S.conns[k])) = LowerSeq(chars)}
      byApp  == {k \in 1..Len(S.conns) : S.conns[k].appid # <<>> /\ LowerSeq(S.conns[k].appid) = LowerSeq(chars)}
      first(c) == CHOOSE k \in c : \A j \in c : k <= j
  IN IF byName # {} THEN first(byName) ELSE IF byApp # {} THEN first(byApp) ELSE 0

ItConnLine(S, k) == [k |-> "connline", ord |-> S.conns[k].ord, role |-> S.conns[k].role, title |-> S.conns[k].title,
                     open |-> S.conns[k].open, n |-> S.conns[k].n, cur |-> S.sel = k, may |-> FALSE]
ConnLines(S) == [k \in 1..Len(S.conns) |-> ItConnLine(S, k)]

CmdStep(S, ev) ==
  CASE ev.c = "filter" ->
         IF ~ev.hasarg THEN [S |-> S, out |-> <<ItInfo("filter")>>, oc |-> "cmd"]
         ELSE IF ~ev.ok THEN [S |-> S, out |-> <<ItError("parse"), ItInfo("filter")>>, oc |-> "cmd"]
         ELSE [S |-> [S EXCEPT !.filter = Refine(S.filter, ev.ast)], out |-> <<ItInfo("filter")>>, oc |-> "cmd"]
    [] ev.c = "break" ->
         IF ~ev.hasarg THEN [S |-> S, out |-> <<ItInfo("break")>>, oc |-> "cmd"]
         ELSE IF ~ev.ok THEN [S |-> S, out |-> <<ItError("parse"), ItInfo("break")>>, oc |-> "cmd"]
         ELSE [S |-> [S EXCEPT !.brk = Refine(S.brk, ev.ast)], out |-> <<ItInfo("break")>>, oc |-> "cmd"]
    [] ev.c = "list" ->
         IF ev.caperr THEN [S |-> S, out |-> <<ItError("cap")>>, oc |-> "cmd"]
         ELSE
         LET flt == IF ev.hasm THEN (IF ev.ok THEN Refine(FAll, ev.ast) ELSE FNone) ELSE S.filter
             r   == ListResult(S, flt, ev.cap)
             err == IF ev.hasm /\ ~ev.ok THEN <<ItError("parse")>> ELSE <<>>
             \* (a line that contradicted the protocol is kept by its connection but not in the common record: what a
             \*  query on that connection lists is then not settled)
             ghost == S.sel # 0 /\ S.conns[S.sel].ghosts > 0
         IN IF ~r.def \/ ghost THEN [S |-> [S EXCEPT !.lastKnown = FALSE], out |-> err \o <<ItInfo("list-unspecified")>>, oc |-> "cmd"]
            ELSE IF r.matched = 0
            THEN [S |-> S,
                  out |-> err \o <<ItInfo("list"), [k |-> "none", n |-> r.didnt, may |-> FALSE]>>, oc |-> "cmd"]
            ELSE \* whether a listing interrupts adjacency of live lines is not settled
                 [S |-> [S EXCEPT !.last = NoTime, !.lastKnown = (S.last = NoTime)],
                  out |-> err \o <<ItInfo("list")>> \o ListItems(S, r.listed, NoTime, TRUE)
                          \o <<ItCounts(r.matched, r.didnt, r.unchecked)>>, oc |-> "cmd"]
    [] ev.c = "conn" ->
         IF ev.arg = "" THEN [S |-> S, out |-> ConnLines(S), oc |-> "cmd"]
         ELSE IF ev.arg = "all" THEN [S |-> [S EXCEPT !.sel = 0], out |-> <<ItInfo("sel")>>, oc |-> "cmd"]
         ELSE LET k == ConnIdxByName(S, CharsOf(ev.arg))
              IN IF k = 0 THEN [S |-> S, out |-> <<ItError("conn")>> \o ConnLines(S), oc |-> "cmd"]
                 ELSE [S |-> [S EXCEPT !.sel = k], out |-> <<ItInfo("sel")>>, oc |-> "cmd"]
    [] ev.c = "resume" -> [S |-> [S EXCEPT !.paused = FALSE, !.pk = TRUE], out |-> <<>>, oc |-> "cmd"]
    [] ev.c = "quit"   -> [S |-> [S EXCEPT !.quit = TRUE], out |-> <<>>, oc |-> "cmd"]
    [] ev.c = "other"  -> \* help, matcher, unknown, ambiguous, empty: output or error, no state change
         [S |-> S, out |-> <<ItInfo("other")>>, oc |-> "cmd"]

Step(S, ev) ==
  CASE ev.e = "msg"  -> MsgStep(S, ev)
    [] ev.e = "junk" -> JunkStep(S, ev)
    [] ev.e = "eof"  -> EofStep(S, ev)
    [] ev.e = "cmd"  -> CmdStep(S, ev)
    [] ev.e = "eval" -> [S |-> S, out |-> <<>>, oc |-> "eval"]   \* a matcher evaluated on the recorded messages: no effect
    [] ev.e = "open" -> OpenStep(S, ev)
    [] ev.e = "close" -> CloseStep(S, ev)

-----------------------------------------------------------------------------
\* State properties (checked on every state of every model and every trace).
TablesOk(S) == \A k \in 1..Len(S.conns) : TableOk(S.conns[k].db)
NamesInOrder(S) == \A k \in 1..Len(S.conns) : S.conns[k].ord = k - 1
OneOpenPerTag(S) == \A a, b \in 1..Len(S.conns) :
                       (S.conns[a].open /\ S.conns[b].open /\ S.conns[a].tag = S.conns[b].tag) => a = b
RecordedAll(S) == /\ Len(S.hist) = Len(S.hconn)
                  /\ \A k \in 1..Len(S.conns) :
                        Cardinality({j \in 1..Len(S.hist) : S.hconn[j] = k}) + S.conns[k].ghosts = S.conns[k].n
HistMentionsOk(S) == \A j \in 1..Len(S.hist) : MentionsOk(S.hist[j], S.conns[S.hconn[j]].db)
ClosedAtEof(S) == S.eof => \A k \in 1..Len(S.conns) : ~S.conns[k].open
StateOk(S) == TablesOk(S) /\ NamesInOrder(S) /\ OneOpenPerTag(S) /\ RecordedAll(S)
              /\ HistMentionsOk(S) /\ ClosedAtEof(S)

\* Step properties between S and the successor T for event ev.
Isolation(S, T, ev) ==
  \A k \in 1..Len(S.conns) :
     (ev.e # "msg" \/ S.conns[k].tag # (IF ev.tag = "" THEN "PARSED" ELSE ev.tag) \/ ~S.conns[k].open)
        => (T.conns[k].db = S.conns[k].db /\ T.conns[k].n = S.conns[k].n /\ T.conns[k].ord = S.conns[k].ord
            /\ T.conns[k].role = S.conns[k].role)
HistoryAppendOnly(S, T) ==
  /\ Len(T.hist) >= Len(S.hist)
  /\ \A j \in 1..Len(S.hist) : T.hist[j] = S.hist[j] /\ T.hconn[j] = S.hconn[j]
NoResurrectionStep(S, T) ==
  \A k \in 1..Len(S.conns) : NoResurrection(S.conns[k].db, T.conns[k].db)
CommandsDoNotRewrite(S, T, ev) ==
  ev.e = "cmd" => (T.hist = S.hist /\ T.conns = S.conns /\ T.base = S.base)
ListIsReadOnly(S, T, ev) ==
  (ev.e = "cmd" /\ ev.c = "list") => (T.filter = S.filter /\ T.brk = S.brk /\ T.sel = S.sel /\ T.hist = S.hist)
StepOk(S, T, ev) == Isolation(S, T, ev) /\ HistoryAppendOnly(S, T) /\ NoResurrectionStep(S, T)
                    /\ CommandsDoNotRewrite(S, T, ev) /\ ListIsReadOnly(S, T, ev)
=============================================================================
