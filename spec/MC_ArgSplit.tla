----------------------------- MODULE MC_ArgSplit -----------------------------
(* Round trip over all argument lists of the bounded universe (C01): what was joined with `, ` splits back. *)
EXTENDS ArgSplit
VARIABLES args, ok
Init == /\ args \in UNION {[1..n -> Arg] : n \in 0..MaxArgs}
        /\ ok = (Split(Join(args)) = args)
Next == UNCHANGED <<args, ok>>
RoundTrip == ok
=============================================================================
