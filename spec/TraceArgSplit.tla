--------------------------- MODULE TraceArgSplit ---------------------------
(***************************************************************************)
(* Binding of ArgSplit!Split to the tool's argument splitter: the harness  *)
(* runs the real function on every class string up to a length (each class *)
(* concretised by a character) and writes the table; TLC evaluates Split   *)
(* on every entry and prints the entries that differ.                      *)
(***************************************************************************)
EXTENDS ArgSplit, Json, IOUtils, TLCExt

Table == JsonDeserialize(IOEnv.TRACE_FILE)     \* Seq([s : Seq(class), parts : Seq(Seq(class))])

VARIABLE k
TInit == k \in 1..Len(Table)
TNext == UNCHANGED k
Agree == Split(Table[k].s) = Table[k].parts
Report == Agree \/ PrintT(<<"DIFF", k, Table[k].s, Table[k].parts, Split(Table[k].s)>>)
=============================================================================
