CONSTANTS MaxArg = 1  MaxStr = 1  MaxArgs = 1
INIT TInit
NEXT TNext
INVARIANT Report
CHECK_DEADLOCK FALSE
