CONSTANTS NL = "N"
          Stream <- StreamD
          Statuses = {0, 3, 99}
SPECIFICATION Spec
INVARIANT Delivered
INVARIANT DeliveredPrefix
INVARIANT AllBeforeStatus
INVARIANT StatusPropagated
INVARIANT NeverInitial
PROPERTY Terminates
CHECK_DEADLOCK FALSE
