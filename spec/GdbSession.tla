------------------------------ MODULE GdbSession ------------------------------
(***************************************************************************)
(* GDB mode above the closure decoding (properties C10, C15): the plugin   *)
(* is told about libwayland events by breakpoints and about user commands  *)
(* by GDB, and answers each breakpoint hit with "halt the program or not". *)
(*                                                                         *)
(* G = [S : Session state, pmap : connection address -> thread that opened *)
(*      it, halted : the program is halted at a message]                   *)
(* Events                                                                  *)
(*   [e:"hit", addr, thread, t, m]   a closure is sent / dispatched on the *)
(*        libwayland connection at `addr` from `thread`                    *)
(*   [e:"destroy", addr]             wl_connection_destroy(addr)           *)
(*   [e:"invoke", cmd]               the user types `wl <command>`         *)
(* GStep returns the successor, the printed items, whether the breakpoint  *)
(* tells GDB to halt, and the GDB command the plugin executes afterwards   *)
(* ("continue", "quit" or "none").                                         *)
(***************************************************************************)
EXTENDS Session

ItWarn == [k |-> "warning", may |-> FALSE]

GInit(filter, brk, show) == [S |-> InitState(filter, brk, show), pmap |-> [x \in {} |-> 0], halted |-> FALSE]

Without(f, a) == [x \in (DOMAIN f) \ {a} |-> f[x]]

\* a message on a libwayland connection: opened at first sight, the pause request of the
\* previous stop is cleared first, a message from another thread only earns a warning
GHit(G, ev) ==
  LET S0    == [G.S EXCEPT !.paused = FALSE, !.pk = TRUE]
      known == ev.addr \in DOMAIN G.pmap
      o     == IF known THEN [S |-> S0, out |-> <<>>]
               ELSE OpenStep(S0, [tag |-> ev.addr, role |-> RoleOf(ev.m)])
      pmap1 == IF known THEN G.pmap ELSE G.pmap @@ (ev.addr :> ev.thread)
      k     == OpenIdx(o.S, ev.addr)
      warn  == o.S.conns[k].role # "client" /\ pmap1[ev.addr] # ev.thread
      r     == MsgStep(o.S, [e |-> "msg", tag |-> ev.addr, t |-> ev.t, m |-> ev.m])
  IN [G |-> [S |-> r.S, pmap |-> pmap1, halted |-> r.S.paused],
      out |-> o.out \o (IF warn THEN <<ItWarn>> ELSE <<>>) \o r.out,
      halt |-> r.S.paused, haltKnown |-> r.S.pk, exec |-> "none", oc |-> r.oc]

\* libwayland destroys a connection: closed if we know it, otherwise nothing happens
\* (a connection that never carried a message, or was closed already); never halts
GDestroy(G, ev) ==
  IF ev.addr \in DOMAIN G.pmap
  THEN LET c == CloseStep(G.S, [tag |-> ev.addr])
       IN [G |-> [G EXCEPT !.S = c.S, !.pmap = Without(G.pmap, ev.addr)], out |-> c.out,
           halt |-> FALSE, haltKnown |-> TRUE, exec |-> "none", oc |-> "destroy"]
  ELSE [G |-> G, out |-> <<>>, halt |-> FALSE, haltKnown |-> TRUE, exec |-> "none", oc |-> "destroy"]

\* a user command: the program stays halted unless the command was resume (continue) or quit
GInvoke(G, ev) ==
  LET S1 == [G.S EXCEPT !.paused = TRUE, !.pk = TRUE]
      r  == CmdStep(S1, ev.cmd)
      ex == IF r.S.quit THEN "quit" ELSE IF ~r.S.paused THEN "continue" ELSE "none"
  IN [G |-> [G EXCEPT !.S = r.S, !.halted = (ex = "none")], out |-> r.out,
      halt |-> (ex = "none"), haltKnown |-> TRUE, exec |-> ex, oc |-> "invoke"]

\* the debugged program exits (it may be run again in the same session): nothing the tool knows changes - connections
\* are closed by their destruction, not by this - and nothing is printed
GExit(G, ev) == [G |-> G, out |-> <<>>, halt |-> FALSE, haltKnown |-> TRUE, exec |-> "none", oc |-> "exit"]

GStep(G, ev) ==
  CASE ev.e = "hit"     -> GHit(G, ev)
    [] ev.e = "exit"    -> GExit(G, ev)
    [] ev.e = "destroy" -> GDestroy(G, ev)
    [] ev.e = "invoke"  -> GInvoke(G, ev)

-----------------------------------------------------------------------------
\* C15 as state / step properties
PmapIsOpen(G) == \A a \in DOMAIN G.pmap : OpenIdx(G.S, a) # 0
OpenIsPmap(G) == \A k \in 1..Len(G.S.conns) : G.S.conns[k].open => G.S.conns[k].tag \in DOMAIN G.pmap
GStateOk(G)   == StateOk(G.S) /\ PmapIsOpen(G) /\ OpenIsPmap(G)

\* every event leaves the connections it does not concern exactly as they were
Untouched(G, H, ev) ==
  \A k \in 1..Len(G.S.conns) :
     (ev.e \in {"invoke", "exit"} \/ G.S.conns[k].tag # ev.addr \/ ~G.S.conns[k].open) => H.S.conns[k] = G.S.conns[k]
\* a connection at an address seen again after its destruction is a new connection: next name, empty table
FreshOnReuse(G, H, ev) ==
  (ev.e = "hit" /\ ev.addr \notin DOMAIN G.pmap) =>
     /\ Len(H.S.conns) = Len(G.S.conns) + 1
     /\ H.S.conns[Len(H.S.conns)].ord = Len(G.S.conns)
     /\ H.S.conns[Len(H.S.conns)].n = 1
CloseOnDestroy(G, H, ev) ==
  ev.e = "destroy" => (ev.addr \notin DOMAIN H.pmap /\ OpenIdx(H.S, ev.addr) = 0 /\ Len(H.S.conns) = Len(G.S.conns))
\* C10
HaltIff(G, r, ev) ==
  ev.e = "hit" /\ r.oc = "ok" =>
     LET h == Len(r.G.S.hist)  k == r.G.S.hconn[h]  rec == r.G.S.hist[h] IN
     /\ (BreakLo(r.G.S, k, rec) => r.halt)
     /\ (r.halt => BreakHi(r.G.S, k, rec))
     /\ (r.halt <=> \E i \in 1..Len(r.out) : r.out[i].k = "stopped" /\ ~r.out[i].may)
CommandOutcome(G, r, ev) ==
  ev.e = "invoke" =>
     /\ (ev.cmd.c = "resume" => r.exec = "continue")
     /\ (ev.cmd.c = "quit" => r.exec = "quit")
     /\ (ev.cmd.c \notin {"resume", "quit"} => r.exec = "none" /\ r.halt)
\* whether the program is halted afterwards is what the step says: a hit or a command decides it, the destruction of a
\* connection neither halts the program nor lets it go
HaltedConsistent(G, r, ev) ==
  IF ev.e \in {"destroy", "exit"} THEN r.G.halted = G.halted /\ ~r.halt ELSE r.G.halted = r.halt
GStepOk(G, r, ev) == HaltedConsistent(G, r, ev) /\ Untouched(G, r.G, ev) /\ FreshOnReuse(G, r.G, ev) /\ CloseOnDestroy(G, r.G, ev)
                     /\ HaltIff(G, r, ev) /\ CommandOutcome(G, r, ev) /\ HistoryAppendOnly(G.S, r.G.S)
                     /\ NoResurrectionStep(G.S, r.G.S)
=============================================================================
