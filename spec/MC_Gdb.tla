-------------------------------- MODULE MC_Gdb --------------------------------
(***************************************************************************)
(* Bounded model of GdbSession (C10, C15): libwayland events on a few      *)
(* connection addresses from a few threads - messages, connection          *)
(* destructions (of known, already closed and never-seen connections),     *)
(* address reuse - interleaved with user commands.                         *)
(***************************************************************************)
EXTENDS GdbSession, MCBase, Json

CONSTANTS Addrs, Threads, MaxLen, GCmds, Brk0
VARIABLES G, inp, act
vars == <<G, inp, act>>

NoBrk == [k |-> "nobrk"]
Init == /\ G = GInit(FAll, IF Brk0.k = "nobrk" THEN FNone ELSE Refine(FNone, Brk0), TRUE)
        /\ inp = <<>> /\ act = [e |-> "init"]

DbAt(a) == LET k == OpenIdx(G.S, a) IN IF a \in DOMAIN G.pmap /\ k # 0 THEN G.S.conns[k].db ELSE EmptyDb
Has2(d, i) == i \in DOMAIN d
OfT(d, ty) == {i \in DOMAIN d : d[i][Len(d[i])].type = ty}
AliveC(d, i) == Has2(d, i) /\ d[i][Len(d[i])].alive

\* well-formed next messages on the connection at address a (a small pool)
MsgsAt(a) ==
  LET d == DbAt(a)  new == a \notin DOMAIN G.pmap IN
  IF new THEN {Msg("wl_display", 1, "get_registry", TRUE, <<New("wl_registry", 2)>>),
               Msg("wl_display", 1, "get_registry", FALSE, <<New("wl_registry", 2)>>),
               Msg("wl_display", 1, "sync", TRUE, <<New("wl_callback", 3)>>)}
  ELSE {Msg("wl_display", 1, "sync", TRUE, <<New("wl_callback", 3)>>) : x \in {1} \ {y \in {1} : AliveC(d, 3)}}
       \cup {Msg("wl_display", 1, "delete_id", FALSE, <<IntA(3)>>) : x \in {y \in {1} : AliveC(d, 3)}}
       \cup {Msg("wl_callback", o, "done", FALSE, <<IntA(7)>>) : o \in OfT(d, "wl_callback")}

LastAbs == IF G.S.base = NoTime THEN 1000 ELSE G.S.base + G.S.lastT

Events ==
  UNION {{[e |-> "hit", addr |-> a, thread |-> th, t |-> LastAbs + 10, m |-> m] : th \in Threads, m \in MsgsAt(a)} : a \in Addrs}
  \cup {[e |-> "destroy", addr |-> a] : a \in Addrs \cup {"never"}}
  \cup {[e |-> "exit"]}
  \cup {[e |-> "invoke", cmd |-> c] : c \in GCmds}

Next == /\ Len(inp) < MaxLen
        /\ ~G.S.quit
        /\ \E ev \in Events :
             /\ G' = GStep(G, ev).G
             /\ inp' = Append(inp, ev)
             /\ act' = ev

InvGState == GStateOk(G)
PropGStep == [][GStepOk(G, GStep(G, act'), act')]_vars
\* C15: every event is tolerated: the step function is total and other connections are untouched (part of GStepOk);
\* C10: halted after a hit iff the message is selected by the breakpoint matcher (part of GStepOk)

BreakCb == Bare(TypeO("wl_callback"))
BreakSync == Full(AnyO, Wd("sync"))
GCmdsAll == {[e |-> "cmd", c |-> "resume"], [e |-> "cmd", c |-> "quit"],
             CmdBreak(BreakCb), CmdBreak(BangM), CmdBreak(ListM(<<>>, <<BreakSync>>)),
             CmdConn("A"), CmdConn("B"), CmdConn("all"), CmdFilter(BreakSync), CmdList(StarP, 1),
             [e |-> "cmd", c |-> "other", text |-> "help"]}
TwoAddrs == {"0x5555aa10", "0x5555bb20"}

\* Witnesses against vacuity (see MC_Session): Never_X must be reported violated
Reach_Halted        == G.halted /\ act.e = "hit"
Reach_NotHalted     == ~G.halted /\ act.e = "hit" /\ G.S.brk # FNone
Reach_HaltSelOther  == act.e = "hit" /\ ~G.halted /\ G.S.sel # 0 /\ G.S.hconn[Len(G.S.hist)] # G.S.sel /\ SelLo(G.S.brk, G.S.hist[Len(G.S.hist)])
Reach_StayHalted    == G.halted /\ act.e = "invoke"
Reach_Resumed       == ~G.halted /\ act.e = "invoke" /\ act.cmd.c = "resume"
Reach_Quit          == G.S.quit
Reach_Closed        == \E k \in 1..Len(G.S.conns) : ~G.S.conns[k].open
Reach_AddrReuse     == \E k1, k2 \in 1..Len(G.S.conns) : k1 < k2 /\ G.S.conns[k1].tag = G.S.conns[k2].tag
Reach_DestroyNever  == act.e = "destroy" /\ act.addr = "never"
Reach_DestroyClosed == act.e = "destroy" /\ act.addr # "never" /\ act.addr \notin DOMAIN G.pmap
                       /\ \E k \in 1..Len(G.S.conns) : G.S.conns[k].tag = act.addr
Reach_OtherThread   == act.e = "hit" /\ act.addr \in DOMAIN G.pmap /\ G.pmap[act.addr] # act.thread
Reach_TwoOpen       == Cardinality(DOMAIN G.pmap) >= 2
Reach_BreakChanged  == act.e = "invoke" /\ act.cmd.c = "break" /\ Len(G.S.hist) > 0
Never_Halted == ~Reach_Halted
Never_NotHalted == ~Reach_NotHalted
Never_HaltSelOther == ~Reach_HaltSelOther
Never_StayHalted == ~Reach_StayHalted
Never_Resumed == ~Reach_Resumed
Never_Quit == ~Reach_Quit
Never_Closed == ~Reach_Closed
Never_AddrReuse == ~Reach_AddrReuse
Never_DestroyNever == ~Reach_DestroyNever
Never_DestroyClosed == ~Reach_DestroyClosed
Never_OtherThread == ~Reach_OtherThread
Never_TwoOpen == ~Reach_TwoOpen
Never_BreakChanged == ~Reach_BreakChanged

Emit == PrintT(<<"EDGE", ToJson([path |-> inp, ev |-> act'])>>)
View == <<G>>
=============================================================================
