----------------------------- MODULE StreamLines -----------------------------
(* A byte stream as the lines a line reader delivers (the last one possibly unterminated). *)
EXTENDS Integers, Sequences
CONSTANT NL          \* the newline byte

RECURSIVE Feed(_, _, _)
Feed(buf, out, bytes) ==
  IF bytes = <<>> THEN [buf |-> buf, out |-> out]
  ELSE IF Head(bytes) = NL THEN Feed(<<>>, Append(out, buf), Tail(bytes))
  ELSE Feed(Append(buf, Head(bytes)), out, Tail(bytes))

Lines(bytes) == LET f == Feed(<<>>, <<>>, bytes) IN IF f.buf = <<>> THEN f.out ELSE Append(f.out, f.buf)
=============================================================================
