---------------------------- MODULE TraceProtocol ----------------------------
(***************************************************************************)
(* C07 as a function table: the harness asks the tool's protocol lookups   *)
(* (get_arg_name / look_up_interface / look_up_enum) every question of the  *)
(* bounded domain - every interface x message x argument position of the   *)
(* shipped descriptions, and for every enum-typed argument all entry       *)
(* values, unions of bitfield entries, zero and values outside the enum -   *)
(* and writes the answers; TLC evaluates Protocol.tla on the independently  *)
(* extracted descriptions (harness/protoextract.py) for every question and *)
(* prints the answers that differ.                                         *)
(***************************************************************************)
EXTENDS Protocol, Json, IOUtils, TLCExt, TLC

Data    == JsonDeserialize(IOEnv.TRACE_FILE)
TProto  == Data.proto
Queries == Data.queries      \* Seq([q, i, m, k, v, a])   a: the tool's answer

NameAns(i, m, k) == IF ArgStatus(i, m, k) = "error" THEN "!error" ELSE ArgName(i, m, k)
NilAns(i, m, k)  == IF ArgStatus(i, m, k) = "error" THEN "!error" ELSE NilIface(i, m, k)
EnumAns(i, m, k, v) == IF ArgStatus(i, m, k) = "error" THEN <<"!error">> ELSE EnumLabels(i, m, k, v)

Expected(x) ==
  CASE x.q = "name" -> NameAns(x.i, x.m, x.k)
    [] x.q = "nil"  -> NilAns(x.i, x.m, x.k)
    [] x.q = "enum" -> EnumAns(x.i, x.m, x.k, x.v)

VARIABLE n
Init == n \in 1..Len(Queries)
Next == UNCHANGED n
Agree == Queries[n].a = Expected(Queries[n]) \/ PrintT(<<"DIFF", n, Queries[n], Expected(Queries[n])>>)
=============================================================================
