----------------------------- MODULE MC_LetterId -----------------------------
(***************************************************************************)
(* C14: letter suffixes run a, b, ..., z, aa, ab, ... without gaps or      *)
(* repeats and convert back to the same position.                          *)
(* (1) on the specification: for every n <= MaxN, ToLetters is strictly    *)
(*     increasing in shortlex order (hence injective), the successor of a  *)
(*     label is the next string in shortlex order (no gaps), and           *)
(*     FromLetters inverts it;                                             *)
(* (2) as a table for the tool (TraceLetterId): the tool's                 *)
(*     number_to_letter_id / letter_id_to_number against ToLetters /       *)
(*     FromLetters for every n of the table.                               *)
(***************************************************************************)
EXTENDS LetterId, FiniteSets, TLC

CONSTANT MaxN
VARIABLE n
Init == n \in 0..MaxN
Next == UNCHANGED n

RoundTrip  == FromLetters(ToLetters(n)) = n /\ FromLetters(ToCaps(n)) = n
Increasing == ShortLexLess(ToLetters(n), ToLetters(n + 1))
\* no gap: the next label is the shortlex successor (increment the last letter with carry)
RECURSIVE Succ(_)
Succ(s) == IF s = <<>> THEN <<"a">>
           ELSE LET last == s[Len(s)]  init == SubSeq(s, 1, Len(s) - 1) IN
                IF last = "z" THEN Succ(init) \o <<"a">>
                ELSE Append(init, Alphabet[LetterIndex(last) + 2])
NoGaps     == ToLetters(n + 1) = Succ(ToLetters(n))
OnlyLetters == \A i \in 1..Len(ToLetters(n)) : \E j \in 1..26 : Alphabet[j] = ToLetters(n)[i]
First      == n = 0 => ToLetters(n) = <<"a">>
=============================================================================
