---------------------------- MODULE TraceLetterId ----------------------------
(* the tool's letter functions against LetterId for every entry of a table written by the harness *)
EXTENDS LetterId, Json, IOUtils, TLCExt, TLC
Table == JsonDeserialize(IOEnv.TRACE_FILE)     \* Seq([n, lower : Seq(char), upper : Seq(char), back : Int, backu : Int])
VARIABLE k
Init == k \in 1..Len(Table)
Next == UNCHANGED k
Agree == LET r == Table[k] IN
         (/\ r.lower = ToLetters(r.n) /\ r.upper = ToCaps(r.n)
          /\ r.back = FromLetters(r.lower) /\ r.backu = FromLetters(r.upper) /\ r.back = r.n /\ r.backu = r.n)
         \/ PrintT(<<"DIFF", r.n, r.lower, ToLetters(r.n), r.back>>)
=============================================================================
