CONSTANTS MaxArg = 3  MaxStr = 3  MaxArgs = 3
INIT Init
NEXT Next
INVARIANT RoundTrip
CHECK_DEADLOCK FALSE
