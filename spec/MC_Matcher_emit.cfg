CONSTANTS
  Dict <- MCDict
  Proto <- MiniProto
  QPats <- NoPats
INIT Init
NEXT Next
ACTION_CONSTRAINT Emit
CHECK_DEADLOCK FALSE
