------------------------------- MODULE WlLine -------------------------------
(***************************************************************************)
(* The shapes of the lines libwayland's WAYLAND_DEBUG printer can emit      *)
(* (property C01), as an enumerable universe of *abstract lines*            *)
(*   [dialect, mark, queue, tag, sent, args : Seq(argument class)]          *)
(* and of lines that hold no message.  Decoding is the identity on abstract *)
(* lines: Denotes(c) gives, for an argument class, the kind the decoded     *)
(* argument must have.  TLC enumerates the universe (WriteCases); the       *)
(* harness renders each abstract line with the printer model - every class  *)
(* with its boundary values and seeded samples - feeds it to the real       *)
(* decoder and compares every field.                                        *)
(*                                                                          *)
(* 32-bit integers, 24.8 fixed values and free text cannot be enumerated    *)
(* by TLC (or anything else here): they are covered by classes, boundaries  *)
(* and samples chosen by the harness, which is stated in DESIGN.md.         *)
(***************************************************************************)
EXTENDS Integers, Sequences, FiniteSets, TLC, Json, IOUtils, SequencesExt

Dialects == {"old", "new"}              \* `@` %f `array`   vs   `#` %d.%08d `array[N]` {queue} <conn>
Marks    == {".", ","}                  \* decimal mark of the locale (old dialect only)
Queues   == {"none", "empty", "word", "words"}   \* {Default Queue} etc., {} for a queue named "" (new dialect only)
Tags     == {"none", "num"}             \* <conn_id> (patched libwayland only)

IntClasses   == {"int0", "intpos", "intneg", "intmin", "intmax", "uintbig"}
FixedClasses == {"fix0", "fixpos", "fixneg", "fixint", "fixtiny", "fixmax", "fixmin"}
StrClasses   == {"strempty", "strplain", "strcomma", "strbracket", "strparen", "strarrow", "strnum", "strfloat", "strobj",
                 "strnil", "strfd", "strarray", "strnewid", "strunicode", "strspaces"}
OtherClasses == {"obj", "objbig", "nil", "newtyped", "newunknown", "fd", "array0", "arrayn"}
ArgClasses   == IntClasses \cup FixedClasses \cup StrClasses \cup OtherClasses

Denotes(c) ==
  CASE c \in IntClasses -> "int"
    [] c \in FixedClasses -> "fixed"
    [] c \in StrClasses -> "string"
    [] c \in {"obj", "objbig"} -> "object"
    [] c = "nil" -> "nil"
    [] c \in {"newtyped", "newunknown"} -> "new_id"
    [] c = "fd" -> "fd"
    [] c \in {"array0", "arrayn"} -> "array"

Shapes == {x \in [dialect : Dialects, mark : Marks, queue : Queues, tag : Tags, sent : BOOLEAN] :
             /\ (x.dialect = "new" => x.mark = ".")        \* the current printer prints integers only
             /\ (x.dialect = "old" => x.queue = "none")}   \* queue names came with the new format

\* lines without a message: must never be reported as one
JunkClasses == {"empty", "chatter", "timestamp-only", "odd-timestamp", "prefix", "discarded", "trailing-text", "no-timestamp",
                "bad-id", "no-dot", "no-paren", "bracketed-chatter"}

CONSTANT MaxArgs
ArgSeqs == UNION {[1..n -> ArgClasses] : n \in 0..MaxArgs}

\* every case once, written for the harness
Cases == {[shape |-> s, args |-> a, kinds |-> [i \in DOMAIN a |-> Denotes(a[i])]] : s \in Shapes, a \in ArgSeqs}

WriteCases == JsonSerialize(IOEnv.CASES_FILE, [cases |-> SetToSeq(Cases), junk |-> SetToSeq(JunkClasses),
                                              classes |-> SetToSeq(ArgClasses)])
VARIABLE done
Init == done = WriteCases
Next == UNCHANGED done
=============================================================================
