------------------------------- MODULE Matcher -------------------------------
(***************************************************************************)
(* Denotational semantics of the documented matcher language (matchers.md  *)
(* and property C05), over *resolved message records* as produced by       *)
(* ObjectTable!Resolve.                                                    *)
(*                                                                         *)
(* A matcher is an abstract syntax tree (records with a field k).  The     *)
(* concrete spellings of a tree (white space, redundant brackets, @ / #)   *)
(* are produced by the harness (harness/mrender.py); this module says what *)
(* a tree selects.                                                         *)
(*                                                                         *)
(*  Top   ::= Pat | [k:"list", pos:Seq(Pat), neg:Seq(Pat)]                 *)
(*  Pat   ::= [k:"pat", form:"bare", conn:Text, obj:Obj]                   *)
(*          | [k:"pat", form:"full", conn:Text, obj:Obj, name:Text,        *)
(*             args:Args]                                                  *)
(*  Text  ::= [k:"any"] | [k:"w", p:Seq(char)] | [k:"list", pos, neg]      *)
(*  Obj   ::= [k:"any"] | [k:"type", t:Text] | [k:"id", id] |              *)
(*            [k:"idgen", id, gen] | [k:"nil"] | [k:"list", pos, neg]      *)
(*  Args  ::= [k:"noargs"] | [k:"args", pos:Seq(Arg), neg:Seq(Arg)]        *)
(*  Arg   ::= [k:"arg", hasname:BOOLEAN, name:Text, val:Val]               *)
(*          | [k:"list", pos, neg]                                         *)
(*  Val   ::= [k:"any"] | [k:"int", v] | [k:"float", raw] | [k:"str", s]   *)
(*          | [k:"word", t:Text] | [k:"obj", o:Obj] | [k:"list", pos, neg] *)
(*                                                                         *)
(* Words on the message side are strings; Dict maps each string to its     *)
(* sequence of one-character strings so that the wildcard `*` can be       *)
(* given its meaning (TLC cannot index into strings).  Pattern words are   *)
(* stored in the tree as character sequences already.                      *)
(* Fixed-point / float values are carried as raw = value * 256 (all values *)
(* the harness generates are multiples of 1/256, exact in both dialects).  *)
(***************************************************************************)
EXTENDS Integers, Sequences, FiniteSets

CONSTANT Dict

CharsOf(w) == IF w = "" THEN <<>> ELSE Dict[w]

RECURSIVE Wild(_, _)
Wild(p, w) ==
  IF p = <<>> THEN w = <<>>
  ELSE IF Head(p) = "*"
       THEN Wild(Tail(p), w) \/ (w # <<>> /\ Wild(p, Tail(w)))
       ELSE w # <<>> /\ Head(p) = Head(w) /\ Wild(Tail(p), Tail(w))

\* A comma / `!` list: some alternative (or no alternative given at all:
\* `! x` means everything but x) and no exclusion.
\* (written out at each use because the item semantics are recursive)

RECURSIVE TextSemC(_, _)
TextSemC(t, cs) ==     \* cs: a sequence of characters
  CASE t.k = "any"  -> TRUE
    [] t.k = "w"    -> Wild(t.p, cs)
    [] t.k = "list" ->
         /\ (Len(t.pos) = 0 \/ \E i \in 1..Len(t.pos) : TextSemC(t.pos[i], cs))
         /\ ~ \E i \in 1..Len(t.neg) : TextSemC(t.neg[i], cs)
TextSem(t, w) == TextSemC(t, CharsOf(w))

\* the word `*` alone is "anything", including "no type known"
TextIsStar(t) == t.k = "any" \/ (t.k = "w" /\ t.p = <<"*">>)

\* x is an object reference [id, gen, type, res]; type "" = unknown,
\* gen -1 = unresolved (the tool treats that as the first incarnation)
GenOf(x) == IF x.gen < 0 THEN 0 ELSE x.gen

RECURSIVE ObjSem(_, _)
ObjSem(o, x) ==
  CASE o.k = "any"   -> TRUE
    [] o.k = "type"  -> IF TextIsStar(o.t) THEN TRUE
                        ELSE x.type # "" /\ TextSem(o.t, x.type)
    [] o.k = "id"    -> x.id = o.id
    [] o.k = "idgen" -> x.id = o.id /\ GenOf(x) = o.gen
    [] o.k = "nil"   -> x.id = 0
    [] o.k = "list"  ->
         /\ (Len(o.pos) = 0 \/ \E i \in 1..Len(o.pos) : ObjSem(o.pos[i], x))
         /\ ~ \E i \in 1..Len(o.neg) : ObjSem(o.neg[i], x)

\* a nil argument stands for "object 0" of the declared interface
NilRef(a) == [id |-> 0, gen |-> 0, type |-> a.niltype, res |-> TRUE]

RECURSIVE ValSem(_, _)
ValSem(v, a) ==
  CASE v.k = "any"   -> TRUE
    [] v.k = "int"   -> CASE a.k \in {"int", "fd"} -> a.v = v.v
                          [] a.k = "float"        -> a.raw % 256 = 0 /\ a.raw \div 256 = v.v   \* (no product: 32-bit integers)
                          [] a.k = "obj"          -> a.obj.id = v.v
                          [] OTHER                -> FALSE
    [] v.k = "float" -> a.k = "float" /\ a.raw = v.raw
    [] v.k = "str"   -> a.k = "str" /\ a.s = v.s
    [] v.k = "word"  -> CASE a.k = "int" -> \E i \in 1..Len(a.labels) : TextSem(v.t, a.labels[i])
                          [] a.k = "obj" -> a.obj.type # "" /\ TextSem(v.t, a.obj.type)
                          [] a.k = "nil" -> a.niltype # "" /\ TextSem(v.t, a.niltype)
                          [] OTHER       -> FALSE
    [] v.k = "obj"   -> CASE a.k = "obj" -> ObjSem(v.o, a.obj)
                          [] a.k = "nil" -> ObjSem(v.o, NilRef(a))
                          [] OTHER       -> FALSE
    [] v.k = "list"  ->
         /\ (Len(v.pos) = 0 \/ \E i \in 1..Len(v.pos) : ValSem(v.pos[i], a))
         /\ ~ \E i \in 1..Len(v.neg) : ValSem(v.neg[i], a)

RECURSIVE ArgSem(_, _)
ArgSem(am, a) ==
  CASE am.k = "arg"  -> (IF am.hasname THEN TextSem(am.name, a.name) ELSE TRUE) /\ ValSem(am.val, a)
    [] am.k = "list" ->
         /\ (Len(am.pos) = 0 \/ \E i \in 1..Len(am.pos) : ArgSem(am.pos[i], a))
         /\ ~ \E i \in 1..Len(am.neg) : ArgSem(am.neg[i], a)

\* every item satisfied by some argument; no excluded item satisfied by any
ArgsSem(A, args) ==
  CASE A.k = "noargs" -> TRUE
    [] A.k = "args"   ->
         /\ \A i \in 1..Len(A.pos) : \E j \in 1..Len(args) : ArgSem(A.pos[i], args[j])
         /\ ~ \E i \in 1..Len(A.neg) : \E j \in 1..Len(args) : ArgSem(A.neg[i], args[j])

Base(p, obj, name, args) ==
  ObjSem(p.obj, obj) /\ TextSem(p.name, name) /\ ArgsSem(p.args, args)

NoDestroyed(m) == m.destroyed.id = 0

\* m is a resolved message record (ObjectTable!Resolve): cname, target, name,
\* args, destroyed (id 0 = none)
PatSem(p, m) ==
  /\ TextSemC(p.conn, m.cname)   \* cname: the connection name as characters
  /\ IF p.form = "bare"
     THEN \* on it, mentioning it, creating it or destroying it
          \/ ObjSem(p.obj, m.target)
          \/ (~NoDestroyed(m) /\ ObjSem(p.obj, m.destroyed))
          \/ \E j \in 1..Len(m.args) :
                \/ (m.args[j].k = "obj" /\ ObjSem(p.obj, m.args[j].obj))
                \/ (m.args[j].k = "nil" /\ ObjSem(p.obj, NilRef(m.args[j])))
     ELSE \/ Base(p, m.target, m.name, m.args)
          \* the pseudo-messages object.new and object.destroyed
          \/ \E j \in 1..Len(m.args) :
                m.args[j].k = "obj" /\ m.args[j].new /\ Base(p, m.args[j].obj, "new", <<>>)
          \/ (~NoDestroyed(m) /\ Base(p, m.destroyed, "destroyed", <<>>))

Sem(top, m) ==
  IF top.k = "list"
  THEN IF Len(top.pos) = 0 /\ Len(top.neg) = 0 THEN FALSE   \* the matcher `!`
       ELSE /\ (Len(top.pos) = 0 \/ \E i \in 1..Len(top.pos) : PatSem(top.pos[i], m))
            /\ ~ \E i \in 1..Len(top.neg) : PatSem(top.neg[i], m)
  ELSE PatSem(top, m)

-----------------------------------------------------------------------------
(***************************************************************************)
(* Accumulation of filter / breakpoint commands (property C12).            *)
(* cur is "all", "none" or an accumulator.  The statement leaves open      *)
(* whether alternatives given before an explicit `*` count again once a    *)
(* later specific alternative arrives, hence the band SelLo / SelHi.       *)
(***************************************************************************)
FAll  == [c |-> "all"]
FNone == [c |-> "none"]

\* "No restriction" and "nothing" as far as they are evident from the shape of a
\* tree alone (the tool shows such a tree as `*` resp. `!`, and C12's rule "a
\* matcher given while the current one is `*` or `!` replaces it" refers to
\* that).  K* return "all", "none" or "mixed"; "mixed" claims nothing.
KList(ks_pos, ks_neg) ==      \* ks_*: sequences of "all"/"none"/"mixed"
  LET anyPosAll == Len(ks_pos) = 0 \/ \E i \in 1..Len(ks_pos) : ks_pos[i] = "all"
      allPosNone == Len(ks_pos) > 0 /\ \A i \in 1..Len(ks_pos) : ks_pos[i] = "none"
      negLeft == \E i \in 1..Len(ks_neg) : ks_neg[i] # "none"
  IN IF \E i \in 1..Len(ks_neg) : ks_neg[i] = "all" THEN "none"
     ELSE IF allPosNone THEN "none"
     ELSE IF anyPosAll /\ ~negLeft THEN "all"
     ELSE "mixed"

RECURSIVE KText(_)
KText(t) ==
  CASE t.k = "any" -> "all"
    [] t.k = "w" -> IF t.p = <<"*">> THEN "all" ELSE "mixed"
    [] t.k = "list" -> KList([i \in 1..Len(t.pos) |-> KText(t.pos[i])], [i \in 1..Len(t.neg) |-> KText(t.neg[i])])

RECURSIVE KObj(_)
KObj(o) ==
  CASE o.k = "any" -> "all"
    [] o.k = "type" -> KText(o.t)
    [] o.k = "list" -> KList([i \in 1..Len(o.pos) |-> KObj(o.pos[i])], [i \in 1..Len(o.neg) |-> KObj(o.neg[i])])
    [] OTHER -> "mixed"

RECURSIVE KVal(_)
KVal(v) ==
  CASE v.k = "any" -> "all"
    [] v.k = "word" -> KText(v.t)
    [] v.k = "obj" -> KObj(v.o)
    [] v.k = "list" -> KList([i \in 1..Len(v.pos) |-> KVal(v.pos[i])], [i \in 1..Len(v.neg) |-> KVal(v.neg[i])])
    [] OTHER -> "mixed"

RECURSIVE KArg(_)
KArg(a) ==
  CASE a.k = "arg" -> LET kn == IF a.hasname THEN KText(a.name) ELSE "all"  kv == KVal(a.val)
                      IN IF kn = kv THEN kn ELSE "mixed"
    [] a.k = "list" -> KList([i \in 1..Len(a.pos) |-> KArg(a.pos[i])], [i \in 1..Len(a.neg) |-> KArg(a.neg[i])])

KArgs(A) ==
  CASE A.k = "noargs" -> "all"
    [] A.k = "args" ->
         IF \E i \in 1..Len(A.neg) : KArg(A.neg[i]) = "all" THEN "none"
         ELSE IF \E i \in 1..Len(A.pos) : KArg(A.pos[i]) = "none" THEN "none"
         ELSE IF (\A i \in 1..Len(A.pos) : KArg(A.pos[i]) = "all") /\ (\A i \in 1..Len(A.neg) : KArg(A.neg[i]) = "none")
              THEN "all" ELSE "mixed"

KAll(ks) == IF \E i \in 1..Len(ks) : ks[i] = "none" THEN "none"
            ELSE IF \A i \in 1..Len(ks) : ks[i] = "all" THEN "all"
            ELSE "mixed"

\* A bare object is the list "on it, or having it as an argument".  That an object that can never match
\* makes the second alternative impossible too is *not* evident from the shape (an argument item with any
\* name and an impossible value is not shown as `!`), so a bare pattern is `!` only through its connection.
KPat(p) ==
  IF p.form = "bare"
  THEN LET onIt  == KAll(<<KText(p.conn), KObj(p.obj)>>)
           asArg == KAll(<<KText(p.conn), IF KObj(p.obj) = "all" THEN "all" ELSE "mixed">>)
       IN KList(<<onIt, asArg>>, <<>>)
  ELSE KAll(<<KText(p.conn), KObj(p.obj), KText(p.name), KArgs(p.args)>>)

IsStarPat(p) == KPat(p) = "all"
IsNonePat(p) == KPat(p) = "none"

TopPos(top) == IF top.k = "list" THEN top.pos ELSE <<top>>
TopNeg(top) == IF top.k = "list" THEN top.neg ELSE <<>>
IsBang(top) == top.k = "list" /\ Len(top.pos) = 0 /\ Len(top.neg) = 0

Specifics(s) == SelectSeq(s, LAMBDA p : ~IsStarPat(p))
Live(s)      == SelectSeq(s, LAMBDA p : ~IsNonePat(p))
HasStar(s)   == \E i \in 1..Len(s) : IsStarPat(s[i])

\* no restriction left -> `*`; nothing that could match left -> `!`
Collapse(a) == IF a.star /\ Len(a.excl) = 0 THEN FAll
               ELSE IF ~a.star /\ Len(Live(a.alts)) = 0 THEN FNone
               ELSE a

Refine(cur, new) ==
  LET pos == TopPos(new)             \* alternatives as written (none written: `! x`)
      neg == Live(TopNeg(new))
  IN
  IF IsBang(new) \/ HasStar(neg) THEN FNone
  ELSE IF cur.c \in {"all", "none"}
  THEN IF HasStar(pos)     \* alternatives given together with `*` are superseded by it at once
       THEN Collapse([c |-> "acc", alts |-> <<>>, excl |-> neg, sup |-> Specifics(pos), star |-> TRUE])
       ELSE Collapse([c |-> "acc", alts |-> Specifics(pos), excl |-> neg, sup |-> <<>>, star |-> Len(pos) = 0])
  ELSE LET excl2 == cur.excl \o neg IN
       IF Len(pos) = 0
       THEN [cur EXCEPT !.excl = excl2]
       ELSE IF HasStar(pos)
       THEN Collapse([c |-> "acc", alts |-> <<>>, excl |-> excl2,
                      sup |-> cur.sup \o cur.alts \o Specifics(pos), star |-> TRUE])
       ELSE Collapse([c |-> "acc", alts |-> cur.alts \o Specifics(pos), excl |-> excl2,
                      sup |-> cur.sup, star |-> FALSE])

AnySem(s, m) == \E i \in 1..Len(s) : PatSem(s[i], m)

SelLo(cur, m) ==
  CASE cur.c = "all"  -> TRUE
    [] cur.c = "none" -> FALSE
    [] cur.c = "acc"  -> (cur.star \/ AnySem(cur.alts, m)) /\ ~AnySem(cur.excl, m)

SelHi(cur, m) ==
  CASE cur.c = "all"  -> TRUE
    [] cur.c = "none" -> FALSE
    [] cur.c = "acc"  -> (cur.star \/ AnySem(cur.alts, m) \/ AnySem(cur.sup, m)) /\ ~AnySem(cur.excl, m)

\* the band is a single value unless superseded alternatives exist
Definite(cur, m) == SelLo(cur, m) = SelHi(cur, m)
=============================================================================
