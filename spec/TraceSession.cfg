CONSTANT Dict <- TDict
CONSTANT Proto <- TProto
INIT Init
NEXT Next
ACTION_CONSTRAINT Report
CHECK_DEADLOCK FALSE
