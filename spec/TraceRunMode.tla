---------------------------- MODULE TraceRunMode ----------------------------
(***************************************************************************)
(* Real executions of run / pipe / file mode against RunMode's properties. *)
(* A record holds what the program wrote (bytes: positive = the number of  *)
(* the line the byte belongs to, 0 = newline), its exit status, the lines  *)
(* the tool was seen to process (each as the line number, repeated once    *)
(* per byte is not needed: a delivered line is identified by its number),  *)
(* and the status the tool exited with.                                    *)
(***************************************************************************)
EXTENDS StreamLines, Json, IOUtils, TLCExt, TLC

Runs == JsonDeserialize(IOEnv.TRACE_FILE)
VARIABLE k
TInit == k \in 1..Len(Runs)
TNext == UNCHANGED k

\* the line numbers of Lines(stream): a line is identified by the number its bytes carry (0 for an empty line)
LineIds(bytes) == LET ls == Lines(bytes) IN [i \in 1..Len(ls) |-> IF ls[i] = <<>> THEN 0 ELSE ls[i][1]]

Check == LET r == Runs[k] IN
  /\ (r.delivered = LineIds(r.stream) \/ PrintT(<<"DIFF", k, "delivered", r.delivered, LineIds(r.stream)>>))
  /\ (r.mode # "run" \/ r.ret = r.status \/ PrintT(<<"DIFF", k, "status", r.ret, r.status>>))
=============================================================================
