----------------------------- MODULE MC_Protocol -----------------------------
(***************************************************************************)
(* C07, version precedence: descriptions of the same interface may be      *)
(* loaded in any order; after every prefix of every order the table holds  *)
(* the highest version seen so far of each interface (when two             *)
(* descriptions have the same version either may stay), and every lookup   *)
(* - including enum labels that live in *another* interface - answers      *)
(* from that table.  TLC prints, for every prefix of every order, what the *)
(* lookups must answer; the harness loads the same files with the real     *)
(* loader in that order and asks the real lookups.                         *)
(***************************************************************************)
EXTENDS Integers, Sequences, FiniteSets, TLC, Json, SequencesExt

CONSTANT Descs      \* set of [name, version, tag, msgs, enums]

P(t) == INSTANCE Protocol WITH Proto <- t

VARIABLES tbl, loaded, order
vars == <<tbl, loaded, order>>

Empty == [x \in {} |-> 0]
Init == tbl = Empty /\ loaded = {} /\ order = <<>>
Load(d) == /\ d \notin loaded
           /\ tbl' = P(tbl)!LoadOne(tbl, d)
           /\ loaded' = loaded \cup {d}
           /\ order' = Append(order, d.tag)
Next == \E d \in Descs : Load(d)

MaxVersion(nm) == LET vs == {d.version : d \in {x \in loaded : x.name = nm}} IN CHOOSE v \in vs : \A w \in vs : w <= v
HighestWins == \A nm \in {d.name : d \in loaded} :
                  /\ nm \in DOMAIN tbl
                  /\ tbl[nm].version = MaxVersion(nm)
                  /\ tbl[nm] \in loaded
NothingElse == DOMAIN tbl = {d.name : d \in loaded}
OrderFree == \A nm \in DOMAIN tbl : \A d \in loaded : (d.name = nm /\ d.version > tbl[nm].version) => FALSE

\* descriptions
A(n, ty, i, ei, en) == [name |-> n, type |-> ty, iface |-> i, eiface |-> ei, ename |-> en]
E(bf, entries) == [bitfield |-> bf, entries |-> entries]
En(n, v) == [name |-> n, value |-> v]
NoEnums == [none |-> E(FALSE, <<>>)]
Src1 == [name |-> "zz_src", version |-> 1, tag |-> "src1", msgs |-> [ping |-> <<>>],
         enums |-> [kind |-> E(FALSE, <<En("one", 1)>>)]]
Src2 == [name |-> "zz_src", version |-> 2, tag |-> "src2", msgs |-> [ping |-> <<A("serial", "uint", "", "", "")>>],
         enums |-> [kind |-> E(FALSE, <<En("one", 1), En("two", 2)>>)]]
User1 == [name |-> "zz_user", version |-> 1, tag |-> "user1",
          msgs |-> [use |-> <<A("mode", "uint", "", "zz_src", "kind")>>, own |-> <<A("m", "uint", "", "", "flags")>>],
          enums |-> [flags |-> E(TRUE, <<En("x", 1)>>)]]
User2 == [name |-> "zz_user", version |-> 2, tag |-> "user2",
          msgs |-> [use |-> <<A("mode", "uint", "", "zz_src", "kind"), A("target", "object", "zz_src", "", "")>>,
                    own |-> <<A("m", "uint", "", "", "flags")>>],
          enums |-> [flags |-> E(TRUE, <<En("x", 1), En("y", 2)>>)]]
Other2a == [name |-> "zz_b", version |-> 2, tag |-> "b2", msgs |-> [b2 |-> <<A("q", "uint", "", "", "")>>], enums |-> NoEnums]
Other2b == [name |-> "zz_b", version |-> 2, tag |-> "b2x", msgs |-> [b2x |-> <<A("q", "uint", "", "", "")>>], enums |-> NoEnums]
Descs6 == {Src1, Src2, User1, User2, Other2a, Other2b}

\* the questions asked after every load
Q(q, i, m, k, v) == [q |-> q, i |-> i, m |-> m, k |-> k, v |-> v]
Questions == <<Q("enum", "zz_user", "use", 1, 1), Q("enum", "zz_user", "use", 1, 2), Q("enum", "zz_user", "use", 1, 3),
               Q("enum", "zz_user", "own", 1, 1), Q("enum", "zz_user", "own", 1, 2), Q("enum", "zz_user", "own", 1, 3),
               Q("enum", "zz_user", "own", 1, 4),
               Q("name", "zz_user", "use", 1, 0), Q("name", "zz_user", "use", 2, 0), Q("nil", "zz_user", "use", 2, 0),
               Q("name", "zz_src", "ping", 1, 0), Q("name", "zz_b", "b2", 1, 0), Q("name", "zz_b", "b2x", 1, 0)>>
Answer(t, x) ==
  CASE x.q = "name" -> IF P(t)!ArgStatus(x.i, x.m, x.k) = "error" THEN "!error" ELSE P(t)!ArgName(x.i, x.m, x.k)
    [] x.q = "nil"  -> IF P(t)!ArgStatus(x.i, x.m, x.k) = "error" THEN "!error" ELSE P(t)!NilIface(x.i, x.m, x.k)
    [] x.q = "enum" -> IF P(t)!ArgStatus(x.i, x.m, x.k) = "error" THEN <<"!error">> ELSE P(t)!EnumLabels(x.i, x.m, x.k, x.v)
Answers(t) == [j \in 1..Len(Questions) |-> Answer(t, Questions[j])]

\* the answers are a function of the table alone: two orders that end in the same table answer alike (checked as
\* an invariant over the emitted prefixes by the harness; here: the table decides)
Emit == PrintT(<<"ORDER", ToJson([order |-> order', versions |-> [x \in DOMAIN tbl' |-> tbl'[x].version],
                                  tags |-> [x \in DOMAIN tbl' |-> tbl'[x].tag], answers |-> Answers(tbl')])>>)
EmitDescs == PrintT(<<"DESCS", ToJson(SetToSeq(Descs)), ToJson(Questions)>>)
EmitAll == Emit /\ (Len(order') = 1 => EmitDescs)
=============================================================================
