----------------------------- MODULE MC_Protocol -----------------------------
(***************************************************************************)
(* C07, version precedence: descriptions of the same interface may be      *)
(* loaded in any order; after every prefix of every order the table holds  *)
(* the highest version seen so far of each interface (when two             *)
(* descriptions have the same version either may stay).                    *)
(***************************************************************************)
EXTENDS Integers, Sequences, FiniteSets, TLC, Json

CONSTANT Descs      \* set of [name, version, body]

\* Protocol!LoadOne, restated here without the lookup half of the module
LoadOne(tbl, d) ==
  IF d.name \in DOMAIN tbl /\ tbl[d.name].version >= d.version THEN tbl
  ELSE [x \in DOMAIN tbl \cup {d.name} |-> IF x = d.name THEN d ELSE tbl[x]]

VARIABLES tbl, loaded, order
vars == <<tbl, loaded, order>>

Empty == [x \in {} |-> 0]
Init == tbl = Empty /\ loaded = {} /\ order = <<>>
Load(d) == /\ d \notin loaded
           /\ tbl' = LoadOne(tbl, d)
           /\ loaded' = loaded \cup {d}
           /\ order' = Append(order, d)
Next == \E d \in Descs : Load(d)

MaxVersion(nm) == LET vs == {d.version : d \in {x \in loaded : x.name = nm}} IN CHOOSE v \in vs : \A w \in vs : w <= v
HighestWins == \A nm \in {d.name : d \in loaded} :
                  /\ nm \in DOMAIN tbl
                  /\ tbl[nm].version = MaxVersion(nm)
                  /\ tbl[nm] \in loaded
NothingElse == DOMAIN tbl = {d.name : d \in loaded}
\* the result does not depend on the order, apart from the choice among equal versions
OrderFree == \A nm \in DOMAIN tbl : \A d \in loaded : (d.name = nm /\ d.version > tbl[nm].version) => FALSE

D(n, v, b) == [name |-> n, version |-> v, body |-> b]
Descs6 == {D("zz_a", 1, "a1"), D("zz_a", 3, "a3"), D("zz_a", 2, "a2"), D("zz_b", 2, "b2"), D("zz_b", 2, "b2x"), D("zz_b", 1, "b1")}
Emit == Len(order') = Cardinality(Descs) => PrintT(<<"ORDER", ToJson([order |-> order', tbl |-> [x \in DOMAIN tbl' |-> tbl'[x].body]])>>)
=============================================================================
