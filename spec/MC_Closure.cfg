CONSTANT MaxArgs = 3
INIT Init
NEXT Next
INVARIANT OnePerCode
INVARIANT InOrder
INVARIANT Agrees
CHECK_DEADLOCK FALSE
