CONSTANT Dict <- TDict
CONSTANT Proto <- TProto
INIT GTInit
NEXT GTNext
ACTION_CONSTRAINT GReport
CHECK_DEADLOCK FALSE
