CONSTANT Descs <- Descs6
INIT Init
NEXT Next
INVARIANT HighestWins
INVARIANT NothingElse
INVARIANT OrderFree
CHECK_DEADLOCK FALSE
