\* C02 / C03: all well-formed histories of one connection, <= MaxLen messages,
\* ids {2,3,4} + one server-range id, <= 3 incarnations per id
CONSTANTS
  Dict <- MCDict
  Proto <- MiniProto
  Tags = {""}
  CIds = {2, 3, 4}
  SIds <- SrvIds1
  MaxLen = 7
  MaxGen = 3
  Gaps = {1}
  Cmds <- NoCmds
  Junk <- NoJunk
  Filter0 <- NoFilter
  Show = TRUE
INIT Init
NEXT Next
VIEW View
INVARIANT InvTables
INVARIANT InvNames
INVARIANT InvOneOpen
INVARIANT InvRecorded
INVARIANT InvMentions
INVARIANT InvClosed
INVARIANT InvResolved
INVARIANT InvDestroyed
INVARIANT InvLife
INVARIANT InvNoGhosts
INVARIANT InvSolo
PROPERTY PropIsolation
PROPERTY PropAppendOnly
PROPERTY PropNoResurrect
PROPERTY PropLifeEnds
PROPERTY PropLatest
PROPERTY PropCommands
PROPERTY PropListReadOnly
PROPERTY PropAnnounce
PROPERTY PropOneItemPerLine
PROPERTY PropShownIffSelected
PROPERTY PropSeparator
CHECK_DEADLOCK FALSE
