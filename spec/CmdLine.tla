------------------------------- MODULE CmdLine -------------------------------
(***************************************************************************)
(* C19: what wayland-debug does with its argument vector.                  *)
(*                                                                         *)
(* argv (after the program name) is a sequence of *tokens*; a token is a   *)
(* class and stands for one or two words:                                  *)
(*   flag     -C --no-color --color --supress --verbose      (1 word)      *)
(*   pipe     -p / --pipe                        selects pipe mode         *)
(*   load     -l F / --load F                    selects file mode (2)     *)
(*   filt     -f M / --filter M, M a matcher     (2 words)                 *)
(*   filtbad  -f M, M malformed                  (2 words)                 *)
(*   brk      -b M / --break M                   (2 words)                 *)
(*   lib      --libwayland D                     (2 words)                 *)
(*   run      -r / --run          gdb   -g / --gdb          the markers     *)
(*   clrun    -Cr (flags then r)  clgdb -Cg                 clusters        *)
(*   clbad    -rC / -gC: the marker letter is not last in its cluster      *)
(*   word     a word that is not an option;  optword  a word that looks    *)
(*            like one of the above (only meaningful after the marker)     *)
(*                                                                         *)
(* Outcome(argv):                                                          *)
(*   [o:"ok", mode, before, after]  before: indexes of tokens that are     *)
(*        ours (a cluster keeps its flags, loses the marker letter),       *)
(*        after: indexes forwarded verbatim and in order                   *)
(*   [o:"cluster-error"]  [o:"arg-error"] (a word we do not understand     *)
(*   before the marker)  [o:"usage"] (not exactly one mode: usage printed, *)
(*   nothing runs)  [o:"bad-matcher"]                                      *)
(***************************************************************************)
EXTENDS Integers, Sequences, FiniteSets, TLC

Classes == {"flag", "pipe", "load", "filt", "filtbad", "brk", "lib", "run", "gdb", "clrun", "clgdb", "clbad", "word", "optword"}
Markers == {"run", "gdb", "clrun", "clgdb", "clbad"}

\* position of the first marker (0 if none)
FirstMarker(argv) ==
  LET s == {i \in 1..Len(argv) : argv[i] \in Markers}
  IN IF s = {} THEN 0 ELSE CHOOSE i \in s : \A j \in s : i <= j

Which(c) == CASE c \in {"run", "clrun"} -> "run" [] c \in {"gdb", "clgdb"} -> "gdb" [] OTHER -> ""

Outcome(argv) ==
  LET fm    == FirstMarker(argv)
      ours  == IF fm = 0 THEN 1..Len(argv) ELSE 1..(fm - 1)
      after == IF fm = 0 THEN {} ELSE (fm + 1)..Len(argv)
      modes == (IF fm # 0 THEN {Which(argv[fm])} ELSE {})
               \cup (IF \E i \in ours : argv[i] = "load" THEN {"load"} ELSE {})
               \cup (IF \E i \in ours : argv[i] = "pipe" THEN {"pipe"} ELSE {})
  IN
  IF fm # 0 /\ argv[fm] = "clbad" THEN [o |-> "cluster-error"]
  ELSE IF \E i \in ours : argv[i] \in {"word", "optword"} THEN [o |-> "arg-error"]
  ELSE IF Cardinality(modes) # 1 THEN [o |-> "usage"]
  ELSE IF LET fs == {i \in ours : argv[i] \in {"filt", "filtbad"}} IN    \* a later -f replaces an earlier one
          fs # {} /\ argv[CHOOSE i \in fs : \A j \in fs : j <= i] = "filtbad" THEN [o |-> "bad-matcher"]
  ELSE [o |-> "ok",
        mode |-> CHOOSE m \in modes : TRUE,
        cluster |-> fm # 0 /\ argv[fm] \in {"clrun", "clgdb"},   \* its flags stay ours
        nbefore |-> Cardinality(ours),
        nafter |-> Cardinality(after)]

\* Properties of Outcome checked over every argv of the bounded universe
CONSTANT MaxLen
VARIABLE argv
Init == argv \in UNION {[1..n -> Classes] : n \in 0..MaxLen}
Next == UNCHANGED argv

\* everything after the first marker is forwarded whatever it looks like: the outcome does not depend on it
ForwardedVerbatim ==
  LET fm == FirstMarker(argv) IN
  fm # 0 => \A c \in Classes :
     LET other == [i \in 1..Len(argv) |-> IF i > fm THEN c ELSE argv[i]] IN Outcome(other) = Outcome(argv)
\* the first marker wins
FirstWins ==
  LET fm == FirstMarker(argv) IN
  (fm # 0 /\ Outcome(argv).o = "ok") => Outcome(argv).mode = Which(argv[fm]) /\ Outcome(argv).nafter = Len(argv) - fm
ExactlyOneMode ==
  Outcome(argv).o = "ok" =>
     LET fm == FirstMarker(argv)
         n  == (IF fm # 0 THEN 1 ELSE 0)
               + (IF \E i \in 1..Len(argv) : (fm = 0 \/ i < fm) /\ argv[i] = "load" THEN 1 ELSE 0)
               + (IF \E i \in 1..Len(argv) : (fm = 0 \/ i < fm) /\ argv[i] = "pipe" THEN 1 ELSE 0)
     IN n = 1

Emit == PrintT(<<"ARGV", argv, Outcome(argv)>>)
=============================================================================
