------------------------------ MODULE Pipeline ------------------------------
(***************************************************************************)
(* C18 (and the skeleton of C08): the line pipeline is total.  Whatever a  *)
(* line holds, exactly one of the following happens, and the reader moves  *)
(* on to the next line until the input ends:                               *)
(*   Handle      the line is a message: it is shown / recorded (possibly   *)
(*               announcing a new connection first, possibly after a       *)
(*               separator, possibly with a breakpoint notice)             *)
(*   Passthrough the line is not a message (or contradicts what is known   *)
(*               about the connection): its text, or a diagnostic, is      *)
(*               passed through as one item (nothing under --supress)      *)
(*   Crash       an internal error is *reported* (never raised): decoding  *)
(*               stops, later lines are only passed through or dropped     *)
(*   Skip        after Crash: a line that would have been a message is     *)
(*               dropped                                                   *)
(* and at the end of input every connection that was announced is reported *)
(* closed exactly once.  State: the set of announced connection names,     *)
(* whether decoding stopped, whether the input ended.                      *)
(***************************************************************************)
EXTENDS Integers, Sequences, FiniteSets

\* items: sequence of [k, name?]; returns the outcome class of one line, or "illegal"
Kinds(items) == [i \in 1..Len(items) |-> items[i].k]

IsHandle(ks) ==    \* [new] [sep] msg [stopped]  |  [new] (a message filtered out)
  LET a == IF Len(ks) > 0 /\ ks[1] = "new" THEN Tail(ks) ELSE ks
      b == IF Len(a) > 0 /\ a[1] = "sep" THEN Tail(a) ELSE a
  IN \/ b = <<"msg">> \/ b = <<"msg", "stopped">> \/ (b = <<>> /\ a = b) \/ b = <<"stopped">>

Classify(items, stopped, show) ==
  LET ks == Kinds(items) IN
  IF ks = <<"junk">> \/ ks = <<"new", "junk">> THEN "passthrough"    \* (a first line of a connection that contradicts the protocol announces it first)
  ELSE IF ks = <<"new">> /\ ~show THEN "passthrough"
  ELSE IF ks = <<>> THEN (IF stopped THEN "skip" ELSE IF ~show THEN "passthrough" ELSE "handle")
  ELSE IF ~stopped /\ Len(ks) >= 1 /\ ks[Len(ks)] = "crash" THEN "crash"         \* traceback, then the error line
  ELSE IF ~stopped /\ Len(ks) >= 2 /\ ks[Len(ks) - 1] = "crash" /\ ks[Len(ks)] = "error" THEN "crash"
  ELSE IF ~stopped /\ IsHandle(ks) THEN "handle"
  ELSE "illegal"

Announced(items) == {items[i].name : i \in {j \in 1..Len(items) : items[j].k = "new"}}
ClosedNames(items) == {items[i].name : i \in {j \in 1..Len(items) : items[j].k = "closed"}}

LineStep(P, items) ==
  LET c == Classify(items, P.stopped, P.show) IN
  [P EXCEPT !.opened = @ \cup Announced(items),
            !.stopped = @ \/ c = "crash",
            !.illegal = @ \/ c = "illegal" \/ (Announced(items) \cap P.opened # {})]

\* at end of input: exactly the announced connections, each once
EofOk(P, items) ==
  /\ \A i \in 1..Len(items) : items[i].k = "closed"
  /\ ClosedNames(items) = P.opened
  /\ Len(items) = Cardinality(P.opened)

PInit(show) == [opened |-> {}, stopped |-> FALSE, illegal |-> FALSE, show |-> show]
=============================================================================
