---------------------------- MODULE RunSchedules ----------------------------
(* The writer schedules of RunMode's bounded streams, for the real-process half of C13: every way the child can split a
   stream of n abstract bytes into writes (RunMode!ChildWrite chooses any k in 1..remaining each time), each with and without
   RunMode!ChildCloseErr (the program closes its standard error and keeps running before it exits). *)
EXTENDS Integers, Sequences, FiniteSets, TLC, Json, SequencesExt
CONSTANT N
RECURSIVE Comps(_)
Comps(n) == IF n = 0 THEN {<<>>} ELSE UNION {{<<k>> \o c : c \in Comps(n - k)} : k \in 1..n}
VARIABLE x
Init == x = PrintT(<<"SCHEDULES", ToJson(SetToSeq({[writes |-> c, closeErr |-> b] : c \in Comps(N), b \in BOOLEAN}))>>)
Next == UNCHANGED x
=============================================================================
