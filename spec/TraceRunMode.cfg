CONSTANTS NL = 0
INIT TInit
NEXT TNext
INVARIANT Check
CHECK_DEADLOCK FALSE
