---------------------------- MODULE TraceClosure ----------------------------
(***************************************************************************)
(* The real plugin inside the real gdb (on the mock libwayland) reported   *)
(* `gdb` for closure `c`; the real log-mode decoder reported `log` for the  *)
(* line the printer model renders for the same closure.  TLC compares both  *)
(* with Closure!Extract / Closure!Printed and checks their agreement.       *)
(***************************************************************************)
EXTENDS Closure, Json, IOUtils, TLCExt, TLC

Cases == JsonDeserialize(IOEnv.TRACE_FILE)     \* Seq([c, gdb, log])
VARIABLE k
Init == k \in 1..Len(Cases)
Next == UNCHANGED k

ArgDiff(want, got) ==
  IF got.k # want.k THEN {"kind"}
  ELSE CASE want.k = "int" -> IF got.v = want.v THEN {} ELSE {"value.int"}
         [] want.k = "fd" -> IF got.v = want.v THEN {} ELSE {"value.fd"}
         [] want.k = "float" -> IF got.raw = want.raw THEN {} ELSE {"value.fixed"}
         [] want.k = "str" -> IF got.s = want.s THEN {} ELSE {"value.string"}
         [] want.k = "nil" -> IF got.niltype = want.niltype THEN {} ELSE {"nil.type"}
         [] want.k = "obj" -> (IF got.id = want.id THEN {} ELSE {"object.id"})
                              \cup (IF got.new = want.new THEN {} ELSE {"object.new"})
                              \cup (IF got.type = want.type THEN {} ELSE {"object.type"})
         [] want.k = "array" -> IF "vals" \in DOMAIN want
                                THEN (IF got.vals = want.vals THEN {} ELSE {"array.elements"})
                                ELSE {}
         [] OTHER -> {}

MsgDiff(want, got) ==
  IF ~got.present THEN {"missing"}
  ELSE (IF got.name = want.name THEN {} ELSE {"name"})
       \cup (IF got.sent = want.sent THEN {} ELSE {"direction"})
       \cup (IF got.tid = want.tid THEN {} ELSE {"sender"})
       \cup (IF got.ttype = want.ttype THEN {} ELSE {"interface"})
       \cup (IF Len(got.args) # Len(want.args) THEN {"nargs"}
             ELSE UNION {{"arg." \o a : a \in ArgDiff(want.args[i], got.args[i])} : i \in 1..Len(want.args)})

Check == LET x == Cases[k]
             dg == MsgDiff(Extract(x.c), x.gdb)
             dl == MsgDiff(Printed(x.c), x.log)
         IN /\ (dg = {} \/ PrintT(<<"DIFF", k, "gdb", dg>>))
            /\ (dl = {} \/ PrintT(<<"DIFF", k, "log", dl>>))
            /\ (Agreement(x.c) \/ PrintT(<<"DIFF", k, "agreement", {}>>))
=============================================================================
