----------------------------- MODULE MC_Session -----------------------------
(***************************************************************************)
(* Bounded model of Session with an environment that offers exactly the    *)
(* *well-formed* next events (the quantifier of C02-C04, C06, C08, C11,     *)
(* C12, C16): client-range ids are created only while no object with that  *)
(* id is alive, server-range ids freely, delete_id only names a live       *)
(* client-range object, every mention names the latest incarnation of its  *)
(* id with the type it has, time does not go back.                         *)
(*                                                                         *)
(* TLC checks the properties over all behaviours up to MaxLen events; each *)
(* transition is also printed (path to its source + the event) so that the *)
(* harness can replay it into the real tool and have the recorded trace    *)
(* validated by TraceSession.                                              *)
(***************************************************************************)
EXTENDS MCBase, Json

CONSTANTS Tags,        \* connection tags in use, e.g. {"1", "2"}
          CIds,        \* client-range ids besides 1, e.g. {2, 3}
          SIds,        \* server-range ids (negative: two's complement)
          MaxLen,      \* events per behaviour
          MaxGen,      \* incarnations per id
          Gaps,        \* time increments (ticks) between messages
          Cmds,        \* user command events on offer
          Junk,        \* non-message lines on offer
          Filter0,     \* initial filter (NoFilter, or a matcher tree)
          Show         \* pass non-message lines through (FALSE = --supress)

VARIABLES S, inp, act
vars == <<S, inp, act>>

NoFilter == [k |-> "nofilter"]
AllFilter == IF Filter0.k = "nofilter" THEN FAll ELSE Refine(FAll, Filter0)

Init == /\ S = InitState(AllFilter, FNone, Show)
        /\ inp = <<>>
        /\ act = [e |-> "init"]

-----------------------------------------------------------------------------
\* the environment
TagOf(c) == IF c = "" THEN "PARSED" ELSE c
DbOf(c)  == LET k == OpenIdx(S, TagOf(c)) IN IF k = 0 THEN EmptyDb ELSE S.conns[k].db
Known(c) == TagOf(c) \in S.known
Alive(d, i) == Has(d, i) /\ Latest(d, i).alive
Gens(d, i)  == IF Has(d, i) THEN Len(d[i]) ELSE 0
\* ids on which a new object may be created now
Free(d)  == {i \in CIds : ~Alive(d, i) /\ Gens(d, i) < MaxGen} \cup {i \in SIds : Gens(d, i) < MaxGen}
CFree(d) == {i \in CIds : ~Alive(d, i) /\ Gens(d, i) < MaxGen}
SFree(d) == {i \in SIds : Gens(d, i) < MaxGen}
OfType(d, ty) == {i \in DOMAIN d : Latest(d, i).type = ty}

\* `side`: TRUE if the log was taken on the server (requests are received, events sent)
Messages(d, side, first) ==
  IF first
  THEN {Msg("wl_display", 1, "get_registry", ~side, <<New("wl_registry", 2)>>)}
       \cup {Msg("wl_display", 1, "sync", ~side, <<New("wl_callback", i)>>) : i \in CFree(d)}
  ELSE
     {Msg("wl_display", 1, "sync", ~side, <<New("wl_callback", i)>>) : i \in CFree(d)}
     \cup {Msg("wl_display", 1, "get_registry", ~side, <<New("wl_registry", i)>>) : i \in CFree(d)}   \* also later, on a re-used id
     \cup {Msg("wl_display", 1, "delete_id", side, <<IntA(i)>>) : i \in {j \in CIds : Alive(d, j)}}
     \cup {Msg("wl_registry", r, "bind", ~side, <<IntA(1), StrA(ty), IntA(1), New("", i)>>) :
              r \in OfType(d, "wl_registry"), ty \in {"wl_compositor", "wl_data_device"}, i \in CFree(d)}
     \cup {Msg("wl_compositor", o, "create_surface", ~side, <<New("wl_surface", i)>>) :
              o \in OfType(d, "wl_compositor"), i \in CFree(d)}
     \cup {Msg("wl_surface", o, "frame", ~side, <<New("wl_callback", i)>>) : o \in OfType(d, "wl_surface"), i \in CFree(d)}
     \cup {Msg("wl_surface", o, "commit", ~side, <<>>) : o \in OfType(d, "wl_surface")}
     \cup {Msg("wl_surface", o, "set_input_region", ~side, <<NilA>>) : o \in OfType(d, "wl_surface")}
     \cup {Msg("wl_callback", o, "done", side, <<IntA(7)>>) : o \in OfType(d, "wl_callback")}
     \cup {Msg("wl_data_device", o, "data_offer", side, <<New("wl_data_offer", i)>>) :
              o \in OfType(d, "wl_data_device"), i \in SFree(d)}
     \cup {Msg("wl_data_device", o, "selection", side, <<ObjA("wl_data_offer", x)>>) :
              o \in OfType(d, "wl_data_device"), x \in OfType(d, "wl_data_offer")}
     \cup {Msg("wl_data_device", o, "selection", side, <<NilA>>) : o \in OfType(d, "wl_data_device")}
     \cup {Msg("wl_data_offer", o, "finish", ~side, <<>>) : o \in OfType(d, "wl_data_offer")}
     \cup {Msg("wl_data_offer", o, "destroy", ~side, <<>>) : o \in OfType(d, "wl_data_offer")}   \* a destructor request: a message like any other

\* the side of a connection is fixed by its first message; before that both are on offer
SideOf(c) == LET k == OpenIdx(S, TagOf(c)) IN
             IF k = 0 THEN {TRUE, FALSE}
             ELSE IF S.conns[k].role = "server" THEN {TRUE}
             ELSE IF S.conns[k].role = "client" THEN {FALSE}
             ELSE {FALSE}

LastAbs == IF S.base = NoTime THEN 1000 ELSE S.base + S.lastT

MsgsFor(c) == UNION {Messages(DbOf(c), side, ~Known(c)) : side \in SideOf(c)}
MsgEvents ==
  UNION {{[e |-> "msg", tag |-> c, t |-> LastAbs + g, m |-> m] : g \in Gaps, m \in MsgsFor(c)} : c \in Tags}

Events == IF S.eof THEN Cmds
          ELSE MsgEvents \cup Cmds \cup {[e |-> "junk", text |-> j] : j \in Junk} \cup {[e |-> "eof"]}

Next == /\ Len(inp) < MaxLen
        /\ \E ev \in Events :
             /\ S' = Step(S, ev).S
             /\ inp' = Append(inp, ev)
             /\ act' = ev

Spec == Init /\ [][Next]_vars

-----------------------------------------------------------------------------
\* Properties (one INVARIANT / PROPERTY line each in the cfg).
InvTables      == TablesOk(S)                      \* C03: at most one alive per id, only the latest, dead have a time
InvNames       == NamesInOrder(S)                  \* C04: k-th connection opened is named k
InvOneOpen     == OneOpenPerTag(S)                 \* C04
InvRecorded    == RecordedAll(S)                   \* C06: every message recorded, none twice
InvMentions    == HistMentionsOk(S)                \* C02: mentions name an existing incarnation of the right type
InvClosed      == ClosedAtEof(S)                   \* C04: every connection closed at end of input
\* C02: in a well-formed history every mention resolves, to the latest incarnation at that point
InvResolved    == \A j \in 1..Len(S.hist) :
                     /\ S.hist[j].target.res
                     /\ \A a \in 1..Len(S.hist[j].args) : S.hist[j].args[a].k = "obj" => S.hist[j].args[a].obj.res
\* C03: a destruction annotation appears exactly on delete_id lines of the display
InvDestroyed   == \A j \in 1..Len(S.hist) :
                     (S.hist[j].destroyed.id # 0) <=> (S.hist[j].name = "delete_id" /\ S.hist[j].target.id = 1)
InvLife        == \A k \in 1..Len(S.conns) : LifeOrdered(S.conns[k].db)
InvNoGhosts    == \A k \in 1..Len(S.conns) : S.conns[k].ghosts = 0 /\ S.parsing   \* well-formed input never takes a deviation

PropIsolation    == [][Isolation(S, S', act')]_vars
PropAppendOnly   == [][HistoryAppendOnly(S, S')]_vars
PropNoResurrect  == [][NoResurrectionStep(S, S')]_vars
PropCommands     == [][CommandsDoNotRewrite(S, S', act')]_vars
PropListReadOnly == [][ListIsReadOnly(S, S', act')]_vars
\* C02: the new record's mentions are the latest incarnations *after* the step
\* for new-id arguments and *at that point* for the others
PropLatest == [][ (act'.e = "msg" /\ Len(S'.hist) = Len(S.hist) + 1) =>
                  LET r == S'.hist[Len(S'.hist)]
                      d == S'.conns[S'.hconn[Len(S'.hist)]].db
                  IN /\ r.target.gen <= Len(d[r.target.id]) - 1
                     /\ \A a \in 1..Len(r.args) :
                          (r.args[a].k = "obj" /\ r.args[a].new) => r.args[a].obj.gen = Len(d[r.args[a].obj.id]) - 1 ]_vars

\* C03: an object's life ends exactly at the delete_id naming its id or - for a server-range id - when that id is handed
\* out again; nothing else ends it (the other half, never alive again, is PropNoResurrect)
Creates(m, i) == \E a \in 1..Len(m.args) : m.args[a].k = "new" /\ m.args[a].id = i
PropLifeEnds == [][ \A k \in 1..Len(S.conns) : \A i \in DOMAIN S.conns[k].db : \A g \in 1..Len(S.conns[k].db[i]) :
                      LET o == S.conns[k].db[i][g]  o2 == S'.conns[k].db[i][g]
                          mine == act'.e = "msg" /\ S.conns[k].open /\ TagOf(act'.tag) = S.conns[k].tag
                          del  == mine /\ act'.m.name = "delete_id" /\ act'.m.tid = 1 /\ act'.m.args[1].v = i
                          again == mine /\ IsServerId(i) /\ Creates(act'.m, i)
                      IN o.alive => ((~o2.alive) <=> (del \/ again)) ]_vars

\* C04: what a connection's table holds depends only on its own lines, however
\* they are interleaved with other connections' lines (times relative to the common base)
RECURSIVE SoloDbOf(_, _, _)
SoloDbOf(tag, evs, d) ==
  IF evs = <<>> THEN d
  ELSE LET ev == Head(evs) IN
       IF ev.e = "msg" /\ TagOf(ev.tag) = tag
       THEN SoloDbOf(tag, Tail(evs), Resolve(d, <<>>, ev.m, ev.t - S.base).db)
       ELSE SoloDbOf(tag, Tail(evs), d)
InvSolo == \A k \in 1..Len(S.conns) : S.conns[k].db = SoloDbOf(S.conns[k].tag, inp, EmptyDb)

\* properties of the printed items
OutOf(ev) == Step(S, ev).out
Count(o, kind) == Cardinality({i \in 1..Len(o) : o[i].k = kind})
\* C04: a connection is announced exactly when it is opened, reported closed exactly once at end of input
PropAnnounce == [][ LET o == OutOf(act') IN
                      /\ Count(o, "new") = Len(S'.conns) - Len(S.conns)
                      /\ Count(o, "closed") = Cardinality({k \in 1..Len(S.conns) : S.conns[k].open /\ ~S'.conns[k].open})
                      /\ (act'.e # "eof" => Count(o, "closed") = 0) ]_vars
\* C08: one item per line (notices aside), the line's own text for a non-message line
PropOneItemPerLine == [][ LET o == OutOf(act') IN
                      /\ (act'.e = "junk" => o = (IF Show THEN <<ItJunk(act'.text)>> ELSE <<>>))
                      /\ ((act'.e = "msg" /\ S.filter = FAll /\ S.sel = 0) =>
                             (Count(o, "msg") = 1 /\ \E i \in 1..Len(o) : o[i].k = "msg" /\ o[i].h = Len(S'.hist))) ]_vars
\* C06: a message line is printed iff the message is selected (filter and selected connection as of arrival)
PropShownIffSelected == [][ act'.e = "msg" =>
                      LET o == OutOf(act')  h == Len(S'.hist)  k == S'.hconn[h]  r == S'.hist[h] IN
                      /\ (SelectedLo(S, k, r) => Count(o, "msg") = 1)
                      /\ (~SelectedHi(S, k, r) => Count(o, "msg") = 0)
                      /\ Len(S'.hist) = Len(S.hist) + 1 ]_vars
\* C16: a separator only directly before a message item, and whenever the gap to the previously shown one exceeds a second
PropSeparator == [][ LET o == OutOf(act') IN
                      /\ \A i \in 1..Len(o) : o[i].k = "sep" => (i < Len(o) /\ o[i + 1].k = "msg")
                      /\ (act'.e = "msg" /\ S.lastKnown /\ S.last # NoTime /\ Count(o, "msg") = 1) =>
                            ((Count(o, "sep") = 1 /\ ~(\E i \in 1..Len(o) : o[i].k = "sep" /\ o[i].may))
                               <=> ((act'.t - S.base) - S.last > SECOND)) ]_vars

-----------------------------------------------------------------------------
\* Witnesses against vacuity: situations the properties above talk about.  Each Never_X is checked as an invariant that TLC
\* must report VIOLATED under the configurations listed for it in harness/witness.py - a configuration in which the
\* situation cannot arise would make the corresponding property hold for no reason.
DbsOf == {S.conns[k].db : k \in 1..Len(S.conns)}
Reach_Reuse        == \E d \in DbsOf : \E i \in DOMAIN d : Len(d[i]) >= 2                       \* a second incarnation
Reach_ReuseAfterDelete == \E d \in DbsOf : \E i \in DOMAIN d \cap CIds : Len(d[i]) >= 2 /\ ~d[i][1].alive /\ d[i][2].alive
Reach_ServerReuse  == \E d \in DbsOf : \E i \in DOMAIN d \cap SIds : Len(d[i]) >= 2            \* server id handed out again
Reach_Destroyed    == \E j \in 1..Len(S.hist) : S.hist[j].destroyed.id # 0 /\ S.hist[j].life # NoTime /\ S.hist[j].life > 0
Reach_OldMention   == \E j \in 1..Len(S.hist) : LET r == S.hist[j]  d == S.conns[S.hconn[j]].db IN
                         r.target.res /\ Len(d[r.target.id]) - 1 > r.target.gen              \* the history names an earlier incarnation
Reach_DeadMention   == \E j \in 1..Len(S.hist) : LET r == S.hist[j]  d == S.conns[S.hconn[j]].db IN
                         r.target.res /\ r.target.id # 1 /\ d[r.target.id][r.target.gen + 1].dt # NoTime
                         /\ d[r.target.id][r.target.gen + 1].dt < r.t                          \* a message on an object after its destruction
Reach_Bind         == \E d \in DbsOf : \E i \in DOMAIN d : Latest(d, i).type \in {"wl_compositor", "wl_data_device"}
Reach_LateRegistry == \E d \in DbsOf : \E i \in DOMAIN d : Len(d[i]) >= 2 /\ Latest(d, i).type = "wl_registry"
Reach_ServerSide   == \E k \in 1..Len(S.conns) : S.conns[k].role = "server"
Reach_TwoConns     == Len(S.conns) >= 2 /\ \A k \in 1..Len(S.conns) : S.conns[k].n > 0
Reach_Interleaved  == \E a, b, c \in 1..Len(S.hist) : a < b /\ b < c /\ S.hconn[a] = S.hconn[c] /\ S.hconn[a] # S.hconn[b]
Reach_SameIdTwice  == \E k1, k2 \in 1..Len(S.conns) : k1 # k2 /\ \E i \in (DOMAIN S.conns[k1].db) \cap (DOMAIN S.conns[k2].db) : i # 1
Reach_EofTwo       == S.eof /\ Len(S.conns) >= 2
Reach_CmdAfterEof  == S.eof /\ act.e = "cmd"
Reach_FilterSplits == S.filter # FAll /\ (\E j \in 1..Len(S.hist) : ~SelHi(S.filter, S.hist[j])) /\ (\E j \in 1..Len(S.hist) : SelLo(S.filter, S.hist[j]))
Reach_FilterMid    == act.e = "cmd" /\ act.c = "filter" /\ Len(S.hist) > 0 /\ ~S.eof
Reach_SelHides     == S.sel # 0 /\ (\E j \in 1..Len(S.hist) : S.hconn[j] # S.sel) /\ (\E j \in 1..Len(S.hist) : S.hconn[j] = S.sel)
Reach_GapOverSecond == \E j \in 1..(Len(S.hist) - 1) : S.hist[j + 1].t - S.hist[j].t > SECOND
Reach_GapExactSecond == \E j \in 1..(Len(S.hist) - 1) : S.hist[j + 1].t - S.hist[j].t = SECOND
Reach_ListCapCuts  == act.e = "cmd" /\ act.c = "list" /\ act.cap >= 1
                      /\ Cardinality({j \in 1..Len(S.hist) : SelLo(IF act.hasm /\ act.ok THEN Refine(FAll, act.ast) ELSE S.filter, S.hist[j])}) > act.cap
Reach_JunkBetween  == \E a, b, c \in 1..Len(inp) : a < b /\ b < c /\ inp[a].e = "msg" /\ inp[b].e = "junk" /\ inp[c].e = "msg"
Reach_Accumulated  == S.filter.c = "acc" /\ Len(S.filter.alts) + Len(S.filter.excl) >= 2                  \* alternatives / exclusions from more than one command, or a list
Never_Reuse == ~Reach_Reuse
Never_ReuseAfterDelete == ~Reach_ReuseAfterDelete
Never_ServerReuse == ~Reach_ServerReuse
Never_Destroyed == ~Reach_Destroyed
Never_OldMention == ~Reach_OldMention
Never_DeadMention == ~Reach_DeadMention
Never_Bind == ~Reach_Bind
Never_LateRegistry == ~Reach_LateRegistry
Never_ServerSide == ~Reach_ServerSide
Never_TwoConns == ~Reach_TwoConns
Never_Interleaved == ~Reach_Interleaved
Never_SameIdTwice == ~Reach_SameIdTwice
Never_EofTwo == ~Reach_EofTwo
Never_CmdAfterEof == ~Reach_CmdAfterEof
Never_FilterSplits == ~Reach_FilterSplits
Never_FilterMid == ~Reach_FilterMid
Never_SelHides == ~Reach_SelHides
Never_GapOverSecond == ~Reach_GapOverSecond
Never_GapExactSecond == ~Reach_GapExactSecond
Never_ListCapCuts == ~Reach_ListCapCuts
Never_JunkBetween == ~Reach_JunkBetween
Never_Accumulated == ~Reach_Accumulated

\* printing of transitions for the replay (always TRUE)
Emit == PrintT(<<"EDGE", ToJson([path |-> inp, ev |-> act'])>>)
View == <<S>>
=============================================================================
