#!/bin/sh
# Build everything the checks need from files on disk (offline).
set -e
cd "$(dirname "$0")"
mkdir -p out evidence
exit 0
