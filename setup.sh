#!/bin/sh
# Build everything the checks need from files on disk (offline).
set -e
cd "$(dirname "$0")"
mkdir -p out/tmp out/replays evidence
# every specification module must parse
for m in spec/*.tla; do
  ( cd spec && java -cp /opt/veriftools/tla/tla2tools.jar:/opt/veriftools/tla/CommunityModules-deps.jar tla2sany.SANY "$(basename "$m")" >/dev/null 2>&1 ) || { echo "SANY failed on $m"; exit 1; }
done
/venv/bin/python -c "import sys; sys.path.insert(0,'harness'); import protoextract; d=protoextract.extract(); print('protocol data:', len(d['proto']), 'interfaces')"
mkdir -p out/bin
gcc -g -O0 -pthread -o out/bin/mockwl harness/mockwl.c
echo setup ok
